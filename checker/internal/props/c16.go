package props

import (
	"fmt"
	"go/ast"
	"go/token"
	"go/types"
	"strings"

	"occheck/internal/engine"
)

func init() {
	register(&Prop{
		ID:    "C16",
		Title: "Textual paths and gNMI paths are one and the same",
		Explanation: "Round trip and injectivity are value properties and are declined. Decided: (1) one tokenizer — a path-typed string is split, or its last element found, on '/' only inside the tokenizer functions of pkg/utils (SplitPath, nextTokenIndex, …) or through them; raw strings.Split / LastIndex / Index with a '/' separator on a path elsewhere is flagged (one exempted idiom with its reason); " +
			"(2) escape agreement — the rune the renderer escapes in element names is the separator the splitter cuts at ('/'), the rune it escapes in key values is the terminator the key parser stops at (']'), and both sides treat '\\' as the escape; (3) keys are rendered in sorted order (sort.Strings on the key slice before it is ranged over); (4) GetParentPath is defined through the tokenizer.",
		Declined: []string{"injectivity and round-trip equality over all names and key values", "escaping of key names and of '[' in element names (YANG identifiers cannot contain them)"},
		Run:      runC16,
		Witness:  []WitnessTarget{{pkgUtils, []string{"StrPathElem", "writeSafeString", "SplitPath", "nextTokenIndex", "parseKey", "parseElement", "findUnescaped"}}, {pkgUtilsPath, []string{"GetParentPath"}}, {pkgNbGnmi, []string{"createUpdate", "doDelete"}}},
	})
}

var tokenizerFuncs = map[string]bool{
	"utils.SplitPath": true, "utils.nextTokenIndex": true, "utils.findUnescaped": true, "utils.parseElement": true, "utils.parseKey": true,
	"utils.strPathV03": true, "utils.SplitPaths": true,
}

func runC16(c *engine.Ctx, tier string) {
	oneTokenizer(c)
	escapeAgreement(c)
	escaperShape(c)
	splitterAutomaton(c)
	sortedKeys(c)
	o := c.Custom("C16.4", "api-uniformity", "GetParentPath computes the parent through utils.SplitPath", "the parent of a path is that path without its last element, brackets respected")
	var uses bool
	for _, cs := range c.P.CallSites() {
		if cs.Func == "utils/path.GetParentPath" {
			o.Eval(1)
			if cs.Callee == "utils.SplitPath" {
				uses = true
			}
		}
	}
	if uses {
		o.Site("utils/path.GetParentPath → utils.SplitPath")
	} else {
		o.Fail(&engine.Violation{Key: "utils/path.GetParentPath|not through the tokenizer", Pos: pkgUtilsPath, Func: "utils/path.GetParentPath", Msg: "GetParentPath does not use the bracket-aware tokenizer"})
	}
	o.Done(1)
}

func isSlashConst(info *types.Info, e ast.Expr) bool {
	tv, ok := info.Types[e]
	if !ok || tv.Value == nil {
		return false
	}
	s := tv.Value.ExactString()
	return s == `"/"` || s == "47"
}

// startsWithSlashConst: the separator searched for is "/" or "/" + something.
func startsWithSlashConst(info *types.Info, e ast.Expr) bool {
	e = ast.Unparen(e)
	if isSlashConst(info, e) {
		return true
	}
	if b, ok := e.(*ast.BinaryExpr); ok && b.Op == token.ADD {
		return startsWithSlashConst(info, b.X)
	}
	return false
}

func oneTokenizer(c *engine.Ctx) { oneTokenizerIn(c, "C16.1", nil, 1) }

// oneTokenizerIn restricts the rule to the given packages (nil = the whole module).
func oneTokenizerIn(c *engine.Ctx, id string, pkgs []string, min int) {
	o := c.Custom(id, "api-uniformity", "no raw strings.Split/SplitN/Index/LastIndex/IndexByte/LastIndexByte/Trim… with separator '/' on a path-typed string outside the tokenizer functions",
		"a key value may contain '/': only the bracket- and escape-aware tokenizer cuts a textual path at element boundaries")
	defer o.Done(min)
	inScope := func(rel string) bool {
		if pkgs == nil {
			return true
		}
		for _, p := range pkgs {
			if p == rel {
				return true
			}
		}
		return false
	}
	raw := map[string]bool{"strings.Split": true, "strings.SplitN": true, "strings.Index": true, "strings.LastIndex": true, "strings.IndexByte": true, "strings.LastIndexByte": true, "strings.SplitAfter": true, "strings.Cut": true}
	for _, cs := range c.P.CallSites() {
		if strings.HasPrefix(cs.Pkg, "internal/") || strings.HasPrefix(cs.Pkg, "cmd/") || !inScope(cs.Pkg) {
			continue
		}
		if cs.Callee == "utils.SplitPath" {
			o.Site(cs.Pos + " " + cs.Func + " uses utils.SplitPath")
			o.Eval(1)
			continue
		}
		if !raw[cs.Callee] || len(cs.Call.Args) < 2 || !startsWithSlashConst(cs.Info, cs.Call.Args[1]) {
			continue
		}
		// the string being cut: unwrap Trim/TrimPrefix etc. and slices of the string
		arg := ast.Unparen(cs.Call.Args[0])
		for {
			if call, ok := arg.(*ast.CallExpr); ok && len(call.Args) >= 1 && strings.HasPrefix(types.ExprString(call.Fun), "strings.Trim") {
				arg = ast.Unparen(call.Args[0])
				continue
			}
			if sl, ok := arg.(*ast.SliceExpr); ok {
				arg = ast.Unparen(sl.X)
				continue
			}
			break
		}
		s, w := isPathTyped(cs.Info, arg)
		if !s && !w {
			continue
		}
		o.Eval(1)
		switch {
		case tokenizerFuncs[cs.Func]:
		case (cs.Func == "northbound/gnmi/v2.Server.doDelete" || cs.Func == "northbound/admin.Server.stripKeyLeaf" || strings.HasPrefix(cs.Func, "northbound/admin.")) && cs.Callee == "strings.LastIndex" && guardedByNoBracketSuffix(cs):
			// the key leaf of a list entry is taken off: the last element has no brackets (guarded by
			// !strings.HasSuffix(path, "]")), so the last '/' is an element boundary
		default:
			o.Fail(&engine.Violation{Key: cs.Func + "|raw '/' cut on a path (" + cs.Callee + ")", Pos: cs.Pos, Func: cs.Func,
				Msg: cs.Callee + "(" + types.ExprString(cs.Call.Args[0]) + ", \"/\") cuts a textual path on raw '/', ignoring brackets and escapes: a key value containing '/' is torn apart"})
		}
	}
}

// guardedByNoBracketSuffix: the call sits in an if whose condition contains !strings.HasSuffix(x, "]").
func guardedByNoBracketSuffix(cs engine.CallSite) bool {
	ok := false
	ast.Inspect(cs.Decl.Body, func(n ast.Node) bool {
		ifs, isIf := n.(*ast.IfStmt)
		if !isIf || cs.Call.Pos() < ifs.Body.Pos() || cs.Call.End() > ifs.Body.End() {
			return true
		}
		if strings.Contains(types.ExprString(ifs.Cond), `!strings.HasSuffix(`) && strings.Contains(types.ExprString(ifs.Cond), `"]")`) {
			ok = true
		}
		return true
	})
	return ok
}

func charConst(info *types.Info, e ast.Expr) string {
	if tv, ok := info.Types[e]; ok && tv.Value != nil {
		return tv.Value.ExactString()
	}
	return ""
}

func escapeAgreement(c *engine.Ctx) {
	o := c.Custom("C16.2", "K-tables(escape sets)", "renderer: names escape {'/', '\\'}, key values escape {']', '\\'}; parser: splitter cuts at unescaped '/' outside brackets, key parser stops at unescaped ']', both treat '\\' as escape",
		"what the renderer writes is exactly what the parser undoes: change one side only and some path no longer survives the round trip")
	defer o.Done(3)
	pkg := c.P.Pkg(pkgUtils)
	if pkg == nil {
		o.Undecided(pkgUtils, "package not found")
		return
	}
	info := pkg.TypesInfo
	var nameEsc, valEsc []string
	var writerEscapes, finderEscape, tokenRunes []string
	var keyValueTerm string
	for _, cs := range c.P.CallSites() {
		if cs.Pkg != pkgUtils {
			continue
		}
		if cs.Callee == "utils.writeSafeString" && len(cs.Call.Args) == 3 {
			ch := charConst(cs.Info, cs.Call.Args[2])
			what := types.ExprString(cs.Call.Args[1])
			if strings.HasSuffix(what, ".Name") {
				nameEsc = append(nameEsc, ch)
			} else if strings.Contains(what, ".Key[") {
				valEsc = append(valEsc, ch)
			}
		}
		if cs.Callee == "utils.findUnescaped" && cs.Func == "utils.parseKey" && len(cs.Call.Args) == 2 {
			if types.ExprString(cs.Call.Args[0]) == "rhs" {
				keyValueTerm = charConst(cs.Info, cs.Call.Args[1])
			}
		}
	}
	for _, fi := range c.P.FuncsOf(pkg) {
		switch fi.Name() {
		case "utils.writeSafeString":
			ast.Inspect(fi.Decl.Body, func(n ast.Node) bool {
				if b, ok := n.(*ast.BinaryExpr); ok && b.Op == token.EQL {
					if ch := charConst(info, b.Y); ch != "" {
						writerEscapes = append(writerEscapes, ch)
					} else if id, ok := b.Y.(*ast.Ident); ok {
						writerEscapes = append(writerEscapes, "param:"+id.Name)
					}
				}
				return true
			})
		case "utils.findUnescaped":
			ast.Inspect(fi.Decl.Body, func(n ast.Node) bool {
				if b, ok := n.(*ast.BinaryExpr); ok && b.Op == token.EQL {
					if ch := charConst(info, b.Y); ch != "" {
						finderEscape = append(finderEscape, ch)
					}
				}
				if call, ok := n.(*ast.CallExpr); ok && types.ExprString(call.Fun) == "strings.IndexByte" && len(call.Args) == 2 {
					if ch := charConst(info, call.Args[1]); ch != "" {
						finderEscape = append(finderEscape, ch)
					}
				}
				return true
			})
		case "utils.nextTokenIndex":
			ast.Inspect(fi.Decl.Body, func(n ast.Node) bool {
				if cc, ok := n.(*ast.CaseClause); ok {
					for _, e := range cc.List {
						tokenRunes = append(tokenRunes, charConst(info, e))
					}
				}
				return true
			})
		}
	}
	has := func(l []string, x string) bool {
		for _, y := range l {
			if y == x {
				return true
			}
		}
		return false
	}
	const slash, rbr, lbr, bsl = "47", "93", "91", "92"
	check := func(ok bool, key, msg string) {
		o.Eval(1)
		if !ok {
			o.Fail(&engine.Violation{Key: "escape agreement|" + key, Pos: pkgUtils + "/gnmiPathUtils.go", Func: "utils", Msg: msg})
		}
	}
	o.Site("renderer: name escape " + strings.Join(nameEsc, ",") + ", key-value escape " + strings.Join(valEsc, ",") + ", always " + strings.Join(writerEscapes, ","))
	o.Site("parser: key value terminator " + keyValueTerm + ", findUnescaped handles " + strings.Join(finderEscape, ",") + ", splitter runes " + strings.Join(tokenRunes, ","))
	o.Site("agreement evaluated")
	check(len(nameEsc) >= 1 && allEq(nameEsc, slash), "name escape", "element names are not escaped with the separator '/' the splitter cuts at")
	check(len(valEsc) >= 1 && allEq(valEsc, rbr), "key value escape", "key values are not escaped with ']' (rendered escape set "+strings.Join(valEsc, ",")+")")
	check(keyValueTerm == rbr, "key value terminator", "the key parser does not stop the value at an unescaped ']' (terminator "+keyValueTerm+") while the renderer escapes ']'")
	check(has(writerEscapes, bsl) && has(writerEscapes, "param:esc"), "writer escapes backslash", "writeSafeString no longer escapes both the given rune and '\\'")
	check(has(finderEscape, bsl), "finder unescapes backslash", "findUnescaped no longer treats '\\' as the escape")
	check(has(tokenRunes, slash) && has(tokenRunes, lbr) && has(tokenRunes, rbr) && has(tokenRunes, bsl), "splitter runes", "nextTokenIndex no longer distinguishes '/', '[', ']' and '\\'")
}

func allEq(l []string, x string) bool {
	for _, y := range l {
		if y != x {
			return false
		}
	}
	return true
}

func sortedKeys(c *engine.Ctx) {
	o := c.Custom("C16.3", "K-order", "StrPathElem: sort.Strings(keys) precedes the loop that renders the keys, and that loop ranges over the sorted slice",
		"two gNMI paths that differ only in key order have one textual form")
	defer o.Done(1)
	paths, err := c.A.PathsOpt(pkgUtils, engine.PathOpts{Roots: []string{"utils.StrPathElem"}, NoInline: true})
	if err != nil {
		o.Undecided("StrPathElem", err.Error())
		return
	}
	n := 0
	for _, p := range paths {
		sorted := ""
		for i := range p.Events {
			e := &p.Events[i]
			if e.Kind == engine.EvCall && e.CalleeName == "sort.Strings" && len(e.Args) == 1 {
				sorted = e.Args[0]
			}
			if e.Kind == engine.EvCall && e.CalleeName == "strings.Builder.WriteString" && strings.HasPrefix(strings.Join(e.Args, ""), "elem") {
				// the key name is written inside a loop: which collection does it range over?
				var le *engine.Event
				for j := i - 1; j >= 0; j-- {
					if x := &p.Events[j]; x.Kind == engine.EvLoopEnter && x.LoopID == e.Loops {
						le = x
						break
					}
				}
				n++
				o.Eval(1)
				if le == nil || sorted == "" || stripHash(le.Range) != stripHash(sorted) {
					o.Fail(&engine.Violation{Key: "StrPathElem|keys not sorted", Pos: c.P.Pos(e.Pos), Func: p.Root.Name(), Msg: "keys are rendered from a collection that was not sorted first (map iteration order would leak into the textual path)"})
					return
				}
			}
		}
	}
	if n > 0 {
		o.Site("StrPathElem: key loop ranges over the slice given to sort.Strings")
	}
}

func stripHash(s string) string {
	if i := strings.Index(s, "#"); i >= 0 {
		return s[:i]
	}
	return s
}

// splitterAutomaton: the transition table of nextTokenIndex, evaluated per rune class and state.
func splitterAutomaton(c *engine.Ctx) {
	o := c.Custom("C16.5", "K-tables(splitter automaton)", "nextTokenIndex: '[' → inBrackets:=true; unescaped ']' → inBrackets:=false; '\\' toggles escape; '/' outside brackets and unescaped → token ends here; every other step clears escape; the state is two booleans",
		"inside a key, '[' is literal for the renderer and the key parser: a splitter that nests brackets, or forgets an escape, cuts a path elsewhere than where the renderer joined it")
	defer o.Done(1)
	paths, err := c.A.PathsOpt(pkgUtils, engine.PathOpts{Roots: []string{"utils.nextTokenIndex"}, NoInline: true})
	if err != nil {
		o.Undecided("nextTokenIndex", err.Error())
		return
	}
	cells := map[string]bool{}
	for _, p := range paths {
		for i := range p.Events {
			le := &p.Events[i]
			if le.Kind != engine.EvLoopEnter || le.Range != "$path" {
				continue
			}
			class := "other"
			var esc, notEsc, inBr, notInBr bool
			writes := map[string]string{}
			returned := ""
			end := -1
			for j := i + 1; j < len(p.Events); j++ {
				ej := &p.Events[j]
				if ej.Kind == engine.EvLoopExit && ej.Node == le.Node {
					end = j
					break
				}
				switch ej.Kind {
				case engine.EvCond:
					l := ej.Lit
					if l.L == "elem($path)" && l.Mask == 2 {
						class = l.R
					}
					if strings.HasPrefix(l.L, "?escape") && l.R == "true" {
						esc, notEsc = esc || l.Mask == 2, notEsc || l.Mask == 5
					}
					if strings.HasPrefix(l.L, "?inBrackets") && l.R == "true" {
						inBr, notInBr = inBr || l.Mask == 2, notInBr || l.Mask == 5
					}
				case engine.EvWrite:
					if ej.Local != nil && ej.Loops == le.LoopID {
						if !isBool(ej.Local.Type()) && ej.Local.Name() != "i" && ej.Local.Name() != "c" {
							o.Eval(1)
							o.Fail(&engine.Violation{Key: "nextTokenIndex|non-boolean state " + ej.Local.Name(), Pos: c.P.Pos(ej.Pos), Func: p.Root.Name(), Msg: "the splitter keeps non-boolean state (" + ej.Local.Name() + "): brackets do not nest inside a key"})
							return
						}
						writes[ej.Local.Name()] = ej.RHS
					}
				case engine.EvReturn:
					if len(ej.Results) == 1 {
						returned = ej.Results[0]
					}
				}
			}
			if end == i+1 {
				continue
			}
			delete(writes, "i")
			delete(writes, "c")
			o.Eval(1)
			want := map[string]string{}
			wantRet := ""
			switch class {
			case "'['":
				want = map[string]string{"inBrackets": "true", "escape": "false"}
			case "']'":
				want = map[string]string{"escape": "false"}
				if notEsc {
					want["inBrackets"] = "false"
				} else if !esc {
					want = nil // the body did not test escape
				}
			case "'\\\\'":
				want = map[string]string{"escape": "TOGGLE"}
			case "'/'":
				if notInBr && notEsc {
					wantRet = "key($path)"
					want = map[string]string{}
				} else {
					want = map[string]string{"escape": "false"}
				}
			default:
				want = map[string]string{"escape": "false"}
			}
			ok := want != nil && len(want) == len(writes) && returned == wantRet
			for k, v := range want {
				got := writes[k]
				if v == "TOGGLE" {
					if !(strings.HasPrefix(got, "!") && strings.Contains(got, "escape")) {
						ok = false
					}
				} else if got != v {
					ok = false
				}
			}
			cells[class] = true
			if !ok {
				o.Fail(&engine.Violation{Key: "nextTokenIndex|transition for " + class, Pos: c.P.Pos(le.Pos), Func: p.Root.Name(),
					Msg: fmt.Sprintf("for rune %s (escape=%v/%v, inBrackets=%v/%v) the splitter does %v return %q; required %v return %q", class, esc, notEsc, inBr, notInBr, writes, returned, want, wantRet)})
				return
			}
		}
	}
	for _, cl := range []string{"'['", "']'", "'/'", "other"} {
		if !cells[cl] {
			o.Undecided("nextTokenIndex|class "+cl, "anchor not found: the splitter has no transition for "+cl)
		}
	}
	o.Site("nextTokenIndex: transition table evaluated for '[', ']', '\\', '/', other")
}

// escaperShape: C16.6. Every rune of the text goes through the escaping decision.
func escaperShape(c *engine.Ctx) {
	o := c.Custom("C16.6", "K-facts(escaper)", "writeSafeString writes into the builder only inside its loop over the runes of s: WriteRune('\\\\') exactly when the rune is the escape character or a backslash, then WriteRune(the rune); nothing of s is written by any other call",
		"a fast path that copies the text without looking at every rune skips the backslash rule: a key value with a backslash no longer survives the round trip")
	defer o.Done(3)
	ps, err := c.A.PathsOpt(pkgUtils, engine.PathOpts{Roots: []string{"utils.writeSafeString"}, Exact: true, NoInline: true})
	if err != nil || len(ps) == 0 {
		o.Undecided(pkgUtils, fmt.Sprintf("no paths for writeSafeString: %v", err))
		return
	}
	reported := map[string]bool{}
	fail := func(p *engine.Path, pos token.Pos, msg string) {
		if !reported[msg] {
			reported[msg] = true
			o.Fail(&engine.Violation{Key: "utils.writeSafeString|" + msg, Pos: c.P.Pos(pos), Func: "utils.writeSafeString", Msg: msg})
		}
	}
	for _, p := range ps {
		o.Eval(1)
		inLoop := false
		escCond, sawCond := false, false
		wroteEsc, wroteRune := false, false
		for i := range p.Events {
			e := &p.Events[i]
			switch e.Kind {
			case engine.EvLoopEnter:
				if e.Range == "$s" {
					inLoop = true
				}
			case engine.EvLoopExit:
				if inLoop {
					// one iteration is complete: check it
					if sawCond {
						if escCond != wroteEsc {
							fail(p, e.Pos, "the escape backslash is written exactly when the rune is neither the escape character nor a backslash (or is missing when it is)")
						}
						if !wroteRune {
							fail(p, e.Pos, "an iteration does not write the rune itself")
						}
					}
					inLoop = false
				}
			case engine.EvCond:
				if inLoop {
					l := e.Lit
					isEsc := (l.L == "$esc" && l.R == "elem($s)") || (l.R == "$esc" && l.L == "elem($s)") || (l.L == "elem($s)" && strings.Contains(l.R, `\\`))
					if isEsc {
						sawCond = true
						if l.Mask == 2 {
							escCond = true
						}
					}
				}
			case engine.EvCall:
				if !strings.HasPrefix(e.CalleeName, "strings.Builder.") || e.Recv != "$Builder" {
					if len(e.Args) > 0 && e.Args[0] == "$s" && strings.Contains(e.CalleeName, "Write") {
						fail(p, e.Pos, "the text is written as a whole ("+e.CalleeName+"), bypassing the per-rune escaping")
					}
					continue
				}
				o.Site(c.P.Pos(e.Pos) + " " + e.CalleeName + "(" + strings.Join(e.Args, ",") + ")")
				switch {
				case !inLoop:
					fail(p, e.Pos, "the builder is written outside the loop over the runes of s ("+e.CalleeName+"("+strings.Join(e.Args, ",")+")): that text bypasses the escaping decision")
				case e.CalleeName == "strings.Builder.WriteRune" && len(e.Args) == 1 && strings.Contains(e.Args[0], `\\`):
					wroteEsc = true
				case e.CalleeName == "strings.Builder.WriteRune" && len(e.Args) == 1 && e.Args[0] == "elem($s)":
					wroteRune = true
				default:
					fail(p, e.Pos, "unexpected write "+e.CalleeName+"("+strings.Join(e.Args, ",")+") in the escaper")
				}
			}
		}
	}
}
