package props

import (
	"go/ast"
	"go/types"
	"strings"

	"occheck/internal/engine"
)

const (
	v3TxUpd  = "store/v3/transaction.Store.UpdateStatus"
	v3CfgUpd = "store/v3/configuration.Store.UpdateStatus"
	v3State  = "config/v3.TransactionPhaseStatus.State"
	v3Pfx    = "config/v3.TransactionPhaseStatus_"
)

func init() {
	register(&Prop{
		ID:    "C20",
		Title: "The v3 transaction protocol keeps its specified order and consistency",
		Explanation: "The invariants Order and Consistency of spec/Transaction.tla quantify over histories and are declined. Decided: the guard table transcribed from the spec's actions, on the four phase functions of the v3 controller (paths enumerated per function with the two status wrappers inlined) — " +
			"(1) commit before apply: Apply.State is advanced to IN_PROGRESS/COMPLETE, and applyValues (the southbound Set) is reached, only under Commit.State == COMPLETE of the same phase; (2) log order of commits: Change.Commit PENDING→IN_PROGRESS only under Committed.Change == index−1 with the predecessor's commit past IN_PROGRESS (or the target cursor already claimed); rollback commit only of the latest revision; " +
			"(3) ordinal sequencing of applies: Change.Apply PENDING→IN_PROGRESS only under Applied.Ordinal == ordinal−1 with the predecessor's apply past IN_PROGRESS, and not when the applied revision is behind the captured rollback index (aborted instead); (4) write order: the committed cursor moves past a transaction only after validation succeeded or after its FAILED state was persisted; COMPLETE is recorded only after the configuration write (or on the recovery branch that finds it done); " +
			"(5) completion re-queues index+1; (6) the southbound Set sits behind the SYNCHRONIZING / term / master / source-node / connection guards and carries the term as election id; (7) error discipline: no error of a status write is replaced by nil; classifiers are applied in the producer's domain; (8) no dependent store write after a swallowed conflict; (9) the value path of the store orders values before the versioned record (as C07.2e for v2).",
		Declined: []string{"the invariants Order and Consistency over histories", "termination", "run-time behaviour of the v3 stores (C15 covers their structural rules)", "v3 is not wired into the manager: nothing here is exercised in production"},
		Run:      runC20,
		Witness:  []WitnessTarget{{pkgTxCtlV3, []string{"commitChange", "applyChange", "commitRollback", "applyRollback", "applyValues", "updateTransactionStatus", "updateConfigurationStatus"}}},
	})
}

func v3Aliases(p *engine.Prog) *engine.Aliases {
	return engine.NewAliases(p,
		"T", "$Transaction",
		"CFG", "$Configuration",
		"IDX", "$Transaction.ID.Index",
		"PREVC", "call:store/v3/transaction.Store.Get(config/v3.TransactionID{Index:$Configuration.Committed.Index,Target:$Transaction.ID.Target})",
		"PREVA", "call:store/v3/transaction.Store.Get(config/v3.TransactionID{Index:$Configuration.Applied.Index,Target:$Transaction.ID.Target})",
		"REL", "call:store/topo.Store.Get(topo.ID($Configuration.Status.Mastership.Master))",
		"CONN", "call:southbound/gnmi.ConnManager.Get(southbound/gnmi.ConnID(@REL.ID))",
	)
}

func v3Paths(c *engine.Ctx) ([]*engine.Path, error) {
	return c.A.PathsOpt(pkgTxCtlV3, engine.PathOpts{NoInline: true, MaxPaths: 60000,
		Roots:  []string{"Reconciler.commitChange", "Reconciler.applyChange", "Reconciler.commitRollback", "Reconciler.applyRollback", "Reconciler.applyValues"},
		Inline: []string{"Reconciler.updateTransactionStatus", "Reconciler.updateConfigurationStatus"}})
}

func lhsIs(suffix string) func(p *engine.Path, i int) bool {
	return func(p *engine.Path, i int) bool { return p.Events[i].LHS == "$Transaction.Status."+suffix }
}

func inRoot(name string, f func(p *engine.Path, i int) bool) func(p *engine.Path, i int) bool {
	return func(p *engine.Path, i int) bool {
		return strings.HasSuffix(p.Root.Name(), name) && (f == nil || f(p, i))
	}
}

func runC20(c *engine.Ctx, tier string) {
	c.Al = v3Aliases(c.P)
	vp, err := v3Paths(c)
	if err != nil {
		o := c.Custom("C20.0", "load", "paths of the v3 controller", "")
		o.Undecided(pkgTxCtlV3, err.Error())
		o.Done(0)
		return
	}
	g := func(gd engine.Guard) {
		gd.Pkg = pkgTxCtlV3
		gd.PathsOverride = vp
		c.Guard(gd)
	}
	complete, inprog := v3Pfx+"COMPLETE", v3Pfx+"IN_PROGRESS"
	// (1) commit before apply
	for _, ph := range []string{"Change", "Rollback"} {
		g(engine.Guard{ID: "C20.1/" + ph + "-state", Min: 2,
			Sel:     engine.Sel{Field: v3State, RHSIn: []string{inprog, complete}, Filter: lhsIs(ph + ".Apply.State")},
			Require: "@T.Status." + ph + ".Commit.State == " + complete,
			Why:     "spec: Apply" + ph + " is enabled only when the " + strings.ToLower(ph) + "'s commit is Complete"})
		g(engine.Guard{ID: "C20.1/" + ph + "-set", Min: 1,
			Sel:     engine.Sel{Call: "controller/v3/transaction.Reconciler.applyValues", Filter: inRoot("Reconciler.apply"+ph, nil)},
			Require: "@T.Status." + ph + ".Commit.State == " + complete + " && @T.Status." + ph + ".Apply.State == " + inprog,
			Why:     "the device is written only in the IN_PROGRESS apply step of a committed phase"})
	}
	// (2) log order of commits
	g(engine.Guard{ID: "C20.2a", Min: 1,
		Sel: engine.Sel{Field: v3State, RHS: inprog, Filter: lhsIs("Change.Commit.State")},
		Require: "@CFG.Committed.Change == (@IDX - 1) && (@CFG.Committed.Target == @IDX || (@CFG.Committed.Index == @CFG.Committed.Target && (errors.IsNotFound(err(@PREVC)) || " +
			"((@CFG.Committed.Target != @CFG.Committed.Index || @PREVC.Status.Change.Commit.State > " + inprog + ") && (@CFG.Committed.Target >= @CFG.Committed.Index || @PREVC.Status.Rollback.Commit.State > " + inprog + ")))))",
		Why: "spec CommitChange: changes are committed in log order, each after its predecessor's commit has finished"})
	g(engine.Guard{ID: "C20.2b", Min: 1,
		Sel:     engine.Sel{Field: v3State, RHS: inprog, Filter: lhsIs("Rollback.Commit.State")},
		Require: "@CFG.Committed.Revision == config/v3.Revision(@IDX) && @CFG.Committed.Target#1 == @T.Status.Rollback.Index || @CFG.Committed.Revision == config/v3.Revision(@IDX) && @CFG.Committed.Target == @T.Status.Rollback.Index",
		Why:     "spec CommitRollback: only the change the configuration currently reflects is rolled back (reverse order)"})
	// (3) ordinal sequencing of applies
	g(engine.Guard{ID: "C20.3a", Min: 2,
		Sel: engine.Sel{Field: v3State, RHS: inprog, Filter: lhsIs("Change.Apply.State")},
		Require: "@CFG.Applied.Ordinal == (@T.Status.Change.Ordinal - 1) && (@CFG.Applied.Target == @IDX || errors.IsNotFound(err(@PREVA)) || " +
			"((@CFG.Applied.Target != @CFG.Applied.Index || @PREVA.Status.Change.Apply.State > " + inprog + ") && (@CFG.Applied.Target >= @CFG.Applied.Index || @PREVA.Status.Rollback.Apply.State > " + inprog + ")))",
		Why: "spec ApplyChange: changes are applied in ordinal order, each after its predecessor's apply has finished"})
	g(engine.Guard{ID: "C20.3b", Min: 1,
		Sel:     engine.Sel{Field: "config/v3.AppliedConfiguration.Target", RHS: "@IDX", Filter: inRoot("Reconciler.applyChange", func(p *engine.Path, i int) bool { return !wroteBefore(p, i, v3State, v3Pfx+"ABORTED") })},
		Require: "(!(@CFG.Applied.Revision < config/v3.Revision(@T.Status.Rollback.Index)) && @T.Status.Change.Apply.State == " + v3Pfx + "PENDING) || @T.Status.Change.Apply.State == " + v3Pfx + "ABORTED || @T.Status.Change.Apply.State == " + v3Pfx + "FAILED",
		Why:     "a change whose predecessor failed or was aborted (applied revision behind the captured rollback index) is aborted, not applied, until it is rolled back"})
	// (4) write order
	g(engine.Guard{ID: "C20.4a", Min: 4,
		Sel:     engine.Sel{Field: "config/v3.CommittedConfiguration.Change", RHS: "@IDX"},
		Require: "#ok(" + pluginValidate + ") || (#wrote(" + v3State + "=" + v3Pfx + "FAILED) && #passed(" + v3TxUpd + ")) || @T.Status.Change.Commit.State == " + v3Pfx + "FAILED",
		Why:     "spec: on a failed validation the transaction is marked Failed first and the configuration's committed index afterwards; the recovery branch (state FAILED, cursor behind) completes the second write. The other order lets a crash turn a rejected change into a committed one"})
	g(engine.Guard{ID: "C20.4b", Min: 2,
		Sel:     engine.Sel{Field: v3State, RHS: complete, Filter: lhsIs("Change.Commit.State")},
		Require: "@CFG.Committed.Change == @IDX || (#ok(" + pluginValidate + ") && #passed(" + v3CfgUpd + "))",
		Why:     "spec: commit Complete is recorded after the configuration holds the change (or on the recovery branch that finds it there)"})
	g(engine.Guard{ID: "C20.4c", Min: 2,
		Sel:     engine.Sel{Field: v3State, RHS: complete, Filter: lhsIs("Change.Apply.State")},
		Require: "(@CFG.Applied.Ordinal == @T.Status.Change.Ordinal && @CFG.Applied.Revision == config/v3.Revision(@IDX)) || (#called(controller/v3/transaction.Reconciler.applyValues) && #passed(" + v3CfgUpd + ") && #wrote(config/v3.AppliedConfiguration.Revision=config/v3.Revision(@IDX)))",
		Why:     "spec: apply Complete is recorded after the applied configuration holds the change"})
	// consistency writes of a successful commit
	c.Outcome(engine.Outcome{ID: "C20.4d", Pkg: pkgTxCtlV3, PathsOverride: vp, Root: "Reconciler.commitChange", Min: 1,
		When: "#ok(" + pluginValidate + ")",
		Must: []engine.Sel{{Field: "config/v3.CommittedConfiguration.Index", RHS: "@IDX"}, {Field: "config/v3.CommittedConfiguration.Change", RHS: "@IDX"},
			{Field: "config/v3.CommittedConfiguration.Revision", RHS: "config/v3.Revision(@IDX)"}, {Field: "config/v3.CommittedConfiguration.Ordinal"}, {Call: v3CfgUpd}},
		Why: "spec Consistency: index, change, revision, ordinal (and values) of the committed configuration move together"})
	// (5) completion re-queues index+1
	next := "controller.Result{Requeue:controller.NewID(config/v3.TransactionID{Index:(@IDX + 1),Target:@T.ID.Target})}"
	for _, x := range []struct{ id, lhs, root string }{
		{"C20.5a", "Change.Commit.State", "Reconciler.commitChange"}, {"C20.5b", "Change.Apply.State", "Reconciler.applyChange"}, {"C20.5c", "Rollback.Apply.State", "Reconciler.applyRollback"},
	} {
		lhs := x.lhs
		c.Outcome(engine.Outcome{ID: x.id, Pkg: pkgTxCtlV3, PathsOverride: vp, Root: x.root, Min: 1,
			When:    "true",
			After:   &engine.Sel{Field: v3State, RHS: complete, Filter: func(p *engine.Path, i int) bool { return lhsIs(lhs)(p, i) && !swallowedAfter(p, i) }},
			Result0: next,
			Why:     "the successor in the log is woken when a phase completes"})
	}
	// (6) southbound guards
	g(engine.Guard{ID: "C20.6a", Min: 1, Sel: engine.Sel{Call: sbSet, Filter: inRoot("Reconciler.applyValues", nil)},
		Require: "@CFG.Status.State != config/v3.ConfigurationStatus_SYNCHRONIZING && !(@CFG.Applied.Term < @CFG.Status.Mastership.Term) && @CFG.Status.Mastership.Master != \"\" && err(@REL) == nil && ok(@CONN) && {@REL}topo.Object.GetRelation().SrcEntityID == topo.ID($recv.nodeID)",
		Why:     "as in v2: only the master's node writes, over the master's connection, never while synchronizing or in a stale term"})
	arbitrationV3(c, vp)
	// (9) the value maps of the configuration record are nil when empty (the store loads them so)
	for _, m := range []string{"Committed", "Applied"} {
		f := "config/v3." + m + "Configuration.Values"
		g(engine.Guard{ID: "C20.9/" + m, Min: 1, Sel: engine.Sel{Field: f + "[]"},
			Require: "@CFG." + m + ".Values != nil || #wrote(" + f + ")",
			Why:     "a configuration without values is loaded with a nil map (the controller tests for it elsewhere): an unguarded indexed write panics on the first change of a target"})
	}
	// (10) the shared apply helper records its own failures in the phase being applied
	for _, ph := range []struct{ name, op string }{{"Rollback", "=="}, {"Change", "!="}} {
		pfx := "$Transaction.Status." + ph.name + ".Apply."
		g(engine.Guard{ID: "C20.10/" + ph.name, Min: 1,
			Sel:     engine.Sel{Field: v3State, Filter: inRoot("Reconciler.applyValues", func(p *engine.Path, i int) bool { return strings.HasPrefix(p.Events[i].LHS, pfx) })},
			Require: "@T.Status.Phase " + ph.op + " config/v3.TransactionStatus_ROLLBACK",
			Why:     "applyValues serves both phases; Status.Rollback.Apply is nil in the change phase, and a failure recorded in the other phase's status is never seen by the phase function"})
	}
	// (7) error discipline
	droppedStatusErrors(c)
	errorDomains(c, "C20.7b", []string{pkgTxCtlV3, pkgCfgCtlV3, pkgMsCtlV3})
	// (8) swallowed conflicts
	swallowedConflicts(c, vp)
}

func wroteBefore(p *engine.Path, i int, field, rhs string) bool {
	for j := 0; j < i; j++ {
		if e := &p.Events[j]; e.Kind == engine.EvWrite && e.Field == field && e.RHS == rhs {
			return true
		}
	}
	return false
}

// swallowedAfter: after event i a status write failed and was swallowed or returned (the outcome
// then is not the completion result).
func swallowedAfter(p *engine.Path, i int) bool {
	for j := i + 1; j < len(p.Events); j++ {
		e := &p.Events[j]
		if e.Kind == engine.EvCond && strings.HasPrefix(e.Lit.L, "err(") && e.Lit.RNil && e.Lit.Mask == 5 {
			return true
		}
	}
	return false
}

func arbitrationV3(c *engine.Ctx, vp []*engine.Path) {
	o := c.Custom("C20.6b", "K-dataflow(request)", "applyValues: Client.Set receiver is the master relation's connection and the request carries MasterArbitration{ElectionId.Low: uint64(CFG.Applied.Term)}",
		"the device rejects writes of a superseded master only if every write carries the term")
	defer o.Done(1)
	conn := c.Al.Resolve("CONN")
	for _, s := range engine.FindSites(vp, c.Match(engine.Sel{Call: sbSet})) {
		e := s.Ev()
		o.Site(c.P.Pos(e.Pos) + " Set")
		for _, ref := range s.Refs {
			o.Eval(1)
			p := ref.Path
			ev := &p.Events[ref.Idx]
			found := false
			for j := 0; j < ref.Idx; j++ {
				w := &p.Events[j]
				if w.Kind == engine.EvWrite && w.Field == "gnmi.SetRequest.Extension" && len(ev.Args) == 1 && w.LHS == ev.Args[0]+".Extension" &&
					strings.Contains(w.RHS, "ElectionId:&gnmi_ext.Uint128{Low:uint64($Configuration.Applied.Term)}") {
					found = true
				}
			}
			if ev.Recv != conn || !found {
				o.Fail(&engine.Violation{Key: "applyValues|arbitration", Pos: c.P.Pos(e.Pos), Func: p.Root.Name(), Msg: "the Set is not sent over the master's connection with the term as election id"})
				return
			}
		}
	}
}

// droppedStatusErrors: `if err := f(); err != nil { return …, nil }`.
func droppedStatusErrors(c *engine.Ctx) {
	o := c.Custom("C20.7a", "errdiscipline", "in the v3 controllers no `if err := <store write>; err != nil` branch returns a nil error",
		"a failed configuration update answered with success is never retried: the transaction stays where it is")
	defer o.Done(10)
	for _, rel := range []string{pkgTxCtlV3, pkgCfgCtlV3, pkgMsCtlV3} {
		pkg := c.P.Pkg(rel)
		if pkg == nil {
			continue
		}
		for _, fi := range c.P.FuncsOf(pkg) {
			ast.Inspect(fi.Decl.Body, func(n ast.Node) bool {
				ifs, ok := n.(*ast.IfStmt)
				if !ok || ifs.Init == nil || types.ExprString(ifs.Cond) != "err != nil" {
					return true
				}
				as, ok := ifs.Init.(*ast.AssignStmt)
				if !ok || len(as.Rhs) != 1 {
					return true
				}
				call, ok := as.Rhs[0].(*ast.CallExpr)
				if !ok || !strings.Contains(types.ExprString(call.Fun), "update") && !strings.Contains(types.ExprString(call.Fun), "Update") {
					return true
				}
				o.Site("")
				o.Eval(1)
				for _, st := range ifs.Body.List {
					if r, ok := st.(*ast.ReturnStmt); ok && len(r.Results) > 0 && types.ExprString(r.Results[len(r.Results)-1]) == "nil" {
						o.Fail(&engine.Violation{Key: fi.Name() + "|error of " + types.ExprString(call.Fun) + " replaced by nil", Pos: c.P.Pos(r.Pos()), Func: fi.Name(),
							Msg: "the error of " + types.ExprString(call.Fun) + " is tested and then replaced by nil in the return: the failed write is reported as success"})
					}
				}
				return true
			})
		}
	}
}

// swallowedConflicts: C20.8.
func swallowedConflicts(c *engine.Ctx, vp []*engine.Path) {
	o := c.Custom("C20.8", "errdiscipline(swallowed conflict)", "after a status write whose Conflict/NotFound was swallowed by the wrapper, the same pass performs no further store write",
		"the spec models 'first write happened, second did not', never 'first write lost, second performed on a stale read'")
	defer o.Done(1)
	reported := map[string]bool{}
	for _, p := range vp {
		swallowedAt := -1
		var first *engine.Event
		for i := range p.Events {
			e := &p.Events[i]
			if e.Kind == engine.EvCall && (e.CalleeName == v3TxUpd || e.CalleeName == v3CfgUpd) {
				if swallowedAt >= 0 {
					key := p.Root.Name() + "|" + first.CalleeName[strings.Index(first.CalleeName, "/")+1:] + " swallowed, then " + e.CalleeName[strings.Index(e.CalleeName, "/")+1:] + "@" + caseOf(p, i)
					if !reported[key] {
						reported[key] = true
						o.Eval(1)
						o.Fail(&engine.Violation{Key: key, Pos: c.P.Pos(e.Pos), Func: p.Root.Name(),
							Msg: "a second store write is performed in the same pass after the first one's Conflict/NotFound was swallowed: it acts on a stale read"})
					}
					break
				}
				// was this call's error swallowed on this path?
				errv := "err(" + e.Canon + ")"
				failed := false
				for j := i + 1; j < len(p.Events); j++ {
					if l := p.Events[j]; l.Kind == engine.EvCond && l.Lit.L == errv && l.Lit.RNil && l.Lit.Mask == 5 {
						failed = true
					}
					if p.Events[j].Kind == engine.EvLeave {
						if failed && len(p.Events[j].Results) == 1 && p.Events[j].Results[0] == "nil" {
							swallowedAt = i
							first = e
						}
						break
					}
				}
				o.Site("")
			}
		}
	}
}

// caseOf names the state-machine case the event sits in (from the path's state conditions).
func caseOf(p *engine.Path, i int) string {
	out := ""
	for _, l := range engine.CondsBefore(p, i) {
		if strings.HasSuffix(l.L, ".State") && strings.HasPrefix(l.L, "$Transaction.Status.") && l.Mask == 2 {
			out = strings.TrimPrefix(l.L, "$Transaction.Status.") + "=" + strings.TrimPrefix(l.R, v3Pfx)
		}
	}
	return out
}
