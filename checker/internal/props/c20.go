package props

import (
	"go/ast"
	"go/types"
	"strings"

	"occheck/internal/engine"
)

const (
	v3TxUpd  = "store/v3/transaction.Store.UpdateStatus"
	v3CfgUpd = "store/v3/configuration.Store.UpdateStatus"
	v3State  = "config/v3.TransactionPhaseStatus.State"
	v3Pfx    = "config/v3.TransactionPhaseStatus_"
)

func init() {
	register(&Prop{
		ID:    "C20",
		Title: "The v3 transaction protocol keeps its specified order and consistency",
		Explanation: "The invariants Order and Consistency of spec/Transaction.tla quantify over histories and are declined. Decided: the guard table transcribed from the spec's actions, on the four phase functions of the v3 controller (paths enumerated per function with the two status wrappers inlined) — " +
			"(1) commit before apply: Apply.State is advanced to IN_PROGRESS/COMPLETE, and applyValues (the southbound Set) is reached, only under Commit.State == COMPLETE of the same phase; (2) log order of commits: Change.Commit PENDING→IN_PROGRESS only under Committed.Change == index−1 with the predecessor's commit past IN_PROGRESS (or the target cursor already claimed); rollback commit only of the latest revision; " +
			"(3) ordinal sequencing of applies: Change.Apply PENDING→IN_PROGRESS only under Applied.Ordinal == ordinal−1 with the predecessor's apply past IN_PROGRESS, and not when the applied revision is behind the captured rollback index (aborted instead); (4) write order: the committed cursor moves past a transaction only after validation succeeded or after its FAILED state was persisted; COMPLETE is recorded only after the configuration write (or on the recovery branch that finds it done); " +
			"(5) completion re-queues index+1; (6) the southbound Set sits behind the SYNCHRONIZING / term / master / source-node / connection guards and carries the term as election id; (7) error discipline: no error of a status write is replaced by nil; classifiers are applied in the producer's domain; (8) no dependent store write after a swallowed conflict; (9) the value path of the store orders values before the versioned record (as C07.2e for v2).",
		Declined: []string{"the invariants Order and Consistency over histories", "termination", "run-time behaviour of the v3 stores (C15 covers their structural rules)", "v3 is not wired into the manager: nothing here is exercised in production"},
		Run:      runC20,
		Witness:  []WitnessTarget{{pkgTxCtlV3, []string{"commitChange", "applyChange", "commitRollback", "applyRollback", "applyValues", "updateTransactionStatus", "updateConfigurationStatus"}}},
	})
}

func v3Aliases(p *engine.Prog) *engine.Aliases {
	return engine.NewAliases(p,
		"T", "$Transaction",
		"CFG", "$Configuration",
		"IDX", "$Transaction.ID.Index",
		"PREVC", "call:store/v3/transaction.Store.Get(config/v3.TransactionID{Index:$Configuration.Committed.Index,Target:$Transaction.ID.Target})",
		"PREVA", "call:store/v3/transaction.Store.Get(config/v3.TransactionID{Index:$Configuration.Applied.Index,Target:$Transaction.ID.Target})",
		"REL", "call:store/topo.Store.Get(topo.ID($Configuration.Status.Mastership.Master))",
		"CONN", "call:southbound/gnmi.ConnManager.Get(southbound/gnmi.ConnID(@REL.ID))",
	)
}

func v3Paths(c *engine.Ctx) ([]*engine.Path, error) {
	return c.A.PathsOpt(pkgTxCtlV3, engine.PathOpts{NoInline: true, MaxPaths: 60000,
		Roots:  []string{"Reconciler.commitChange", "Reconciler.applyChange", "Reconciler.commitRollback", "Reconciler.applyRollback", "Reconciler.applyValues"},
		Inline: []string{"Reconciler.updateTransactionStatus", "Reconciler.updateConfigurationStatus"}})
}

func lhsIs(suffix string) func(p *engine.Path, i int) bool {
	return func(p *engine.Path, i int) bool { return p.Events[i].LHS == "$Transaction.Status."+suffix }
}

func inRoot(name string, f func(p *engine.Path, i int) bool) func(p *engine.Path, i int) bool {
	return func(p *engine.Path, i int) bool {
		return strings.HasSuffix(p.Root.Name(), name) && (f == nil || f(p, i))
	}
}

func runC20(c *engine.Ctx, tier string) {
	c.Al = v3Aliases(c.P)
	vp, err := v3Paths(c)
	if err != nil {
		o := c.Custom("C20.0", "load", "paths of the v3 controller", "")
		o.Undecided(pkgTxCtlV3, err.Error())
		o.Done(0)
		return
	}
	g := func(gd engine.Guard) {
		gd.Pkg = pkgTxCtlV3
		gd.PathsOverride = vp
		c.Guard(gd)
	}
	complete, inprog := v3Pfx+"COMPLETE", v3Pfx+"IN_PROGRESS"
	// (1) commit before apply
	for _, ph := range []string{"Change", "Rollback"} {
		g(engine.Guard{ID: "C20.1/" + ph + "-state", Min: 2,
			Sel:     engine.Sel{Field: v3State, RHSIn: []string{inprog, complete}, Filter: lhsIs(ph + ".Apply.State")},
			Require: "@T.Status." + ph + ".Commit.State == " + complete,
			Why:     "spec: Apply" + ph + " is enabled only when the " + strings.ToLower(ph) + "'s commit is Complete"})
		g(engine.Guard{ID: "C20.1/" + ph + "-set", Min: 1,
			Sel:     engine.Sel{Call: "controller/v3/transaction.Reconciler.applyValues", Filter: inRoot("Reconciler.apply"+ph, nil)},
			Require: "@T.Status." + ph + ".Commit.State == " + complete + " && @T.Status." + ph + ".Apply.State == " + inprog,
			Why:     "the device is written only in the IN_PROGRESS apply step of a committed phase"})
	}
	// (2) log order of commits
	g(engine.Guard{ID: "C20.2a", Min: 1,
		Sel: engine.Sel{Field: v3State, RHS: inprog, Filter: lhsIs("Change.Commit.State")},
		Require: "@CFG.Committed.Change == (@IDX - 1) && (@CFG.Committed.Target == @IDX || (@CFG.Committed.Index == @CFG.Committed.Target && (errors.IsNotFound(err(@PREVC)) || " +
			"((@CFG.Committed.Target != @CFG.Committed.Index || @PREVC.Status.Change.Commit.State > " + inprog + ") && (@CFG.Committed.Target >= @CFG.Committed.Index || @PREVC.Status.Rollback.Commit.State > " + inprog + ")))))",
		Why: "spec CommitChange: changes are committed in log order, each after its predecessor's commit has finished"})
	g(engine.Guard{ID: "C20.2b", Min: 1,
		Sel:     engine.Sel{Field: v3State, RHS: inprog, Filter: lhsIs("Rollback.Commit.State")},
		Require: "@CFG.Committed.Revision == config/v3.Revision(@IDX) && @CFG.Committed.Target#1 == @T.Status.Rollback.Index || @CFG.Committed.Revision == config/v3.Revision(@IDX) && @CFG.Committed.Target == @T.Status.Rollback.Index",
		Why:     "spec CommitRollback: only the change the configuration currently reflects is rolled back (reverse order)"})
	// (3) ordinal sequencing of applies
	g(engine.Guard{ID: "C20.3a", Min: 2,
		Sel: engine.Sel{Field: v3State, RHS: inprog, Filter: lhsIs("Change.Apply.State")},
		Require: "@CFG.Applied.Ordinal == (@T.Status.Change.Ordinal - 1) && (@CFG.Applied.Target == @IDX || errors.IsNotFound(err(@PREVA)) || " +
			"((@CFG.Applied.Target != @CFG.Applied.Index || @PREVA.Status.Change.Apply.State > " + inprog + ") && (@CFG.Applied.Target >= @CFG.Applied.Index || @PREVA.Status.Rollback.Apply.State > " + inprog + ")))",
		Why: "spec ApplyChange: changes are applied in ordinal order, each after its predecessor's apply has finished"})
	g(engine.Guard{ID: "C20.3b", Min: 1,
		Sel:     engine.Sel{Field: "config/v3.AppliedConfiguration.Target", RHS: "@IDX", Filter: inRoot("Reconciler.applyChange", func(p *engine.Path, i int) bool { return !wroteBefore(p, i, v3State, v3Pfx+"ABORTED") })},
		Require: "(!(@CFG.Applied.Revision < config/v3.Revision(@T.Status.Rollback.Index)) && @T.Status.Change.Apply.State == " + v3Pfx + "PENDING) || @T.Status.Change.Apply.State == " + v3Pfx + "ABORTED || @T.Status.Change.Apply.State == " + v3Pfx + "FAILED",
		Why:     "a change whose predecessor failed or was aborted (applied revision behind the captured rollback index) is aborted, not applied, until it is rolled back"})
	// reverse order of rollbacks
	g(engine.Guard{ID: "C20.2c", Min: 1,
		Sel: engine.Sel{Field: "config/v3.CommittedConfiguration.Target", RHS: "@T.Status.Rollback.Index"},
		Require: "@CFG.Committed.Revision == config/v3.Revision(@IDX) && @CFG.Committed.Target == @IDX && @CFG.Committed.Index == @CFG.Committed.Target && " +
			"(errors.IsNotFound(err(@PREVC)) || @PREVC.Status.Change.Commit.State == " + complete + " || @CFG.Committed.Index != @IDX)",
		Why: "spec CommitRollback: the committed target moves back only for the change the configuration currently reflects, whose own commit has completed"})
	g(engine.Guard{ID: "C20.3c", Min: 1,
		Sel: engine.Sel{Field: "config/v3.AppliedConfiguration.Target", RHS: "@T.Status.Rollback.Index"},
		Require: "@T.Status.Rollback.Commit.State == " + complete + " && @CFG.Applied.Ordinal == (@T.Status.Rollback.Ordinal - 1) && (errors.IsNotFound(err(@PREVA)) || " +
			"((@CFG.Applied.Index != @IDX || @PREVA.Status.Change.Apply.State >= " + complete + ") && (@CFG.Applied.Index <= @IDX || @PREVA.Status.Rollback.Apply.State >= " + complete + ")))",
		Why: "spec ApplyRollback: rollbacks are applied in ordinal order, each after what the applied configuration currently reflects has finished"})
	// recovery: a change whose apply was aborted or failed but whose cursors were not written yet completes the write
	for _, x := range []struct{ id, root, st string }{
		{"C20.5d", "Reconciler.applyChange", "ABORTED"}, {"C20.5e", "Reconciler.applyChange", "FAILED"},
	} {
		c.Outcome(engine.Outcome{ID: x.id, Pkg: pkgTxCtlV3, PathsOverride: vp, Root: x.root, Min: 1, Consistent: true,
			When: "@T.Status.Change.Commit != nil && @T.Status.Change.Apply != nil && @T.Status.Change.Commit.State == " + complete + " && @T.Status.Change.Apply.State == " + v3Pfx + x.st + " && @CFG.Applied.Ordinal < @T.Status.Change.Ordinal",
			Must: []engine.Sel{{Field: "config/v3.AppliedConfiguration.Index", RHS: "@IDX"}, {Field: "config/v3.AppliedConfiguration.Ordinal", RHS: "@T.Status.Change.Ordinal"}, {Call: v3CfgUpd}},
			Why:  "a crash between the two records leaves the applied cursors behind an " + x.st + " change: the next pass must move them, or every later change waits for ever"})
	}
	// (4) write order
	g(engine.Guard{ID: "C20.4a", Min: 4,
		Sel:     engine.Sel{Field: "config/v3.CommittedConfiguration.Change", RHS: "@IDX"},
		Require: "#ok(" + pluginValidate + ") || (#wrote(" + v3State + "=" + v3Pfx + "FAILED) && #passed(" + v3TxUpd + ")) || @T.Status.Change.Commit.State == " + v3Pfx + "FAILED",
		Why:     "spec: on a failed validation the transaction is marked Failed first and the configuration's committed index afterwards; the recovery branch (state FAILED, cursor behind) completes the second write. The other order lets a crash turn a rejected change into a committed one"})
	g(engine.Guard{ID: "C20.4b", Min: 2,
		Sel:     engine.Sel{Field: v3State, RHS: complete, Filter: lhsIs("Change.Commit.State")},
		Require: "@CFG.Committed.Change == @IDX || (#ok(" + pluginValidate + ") && #passed(" + v3CfgUpd + "))",
		Why:     "spec: commit Complete is recorded after the configuration holds the change (or on the recovery branch that finds it there)"})
	g(engine.Guard{ID: "C20.4c", Min: 2,
		Sel:     engine.Sel{Field: v3State, RHS: complete, Filter: lhsIs("Change.Apply.State")},
		Require: "(@CFG.Applied.Ordinal == @T.Status.Change.Ordinal && @CFG.Applied.Revision == config/v3.Revision(@IDX)) || (#called(controller/v3/transaction.Reconciler.applyValues) && #passed(" + v3CfgUpd + ") && #wrote(config/v3.AppliedConfiguration.Revision=config/v3.Revision(@IDX)))",
		Why:     "spec: apply Complete is recorded after the applied configuration holds the change"})
	g(engine.Guard{ID: "C20.4e", Min: 2,
		Sel:     engine.Sel{Field: v3State, RHS: complete, Filter: lhsIs("Rollback.Apply.State")},
		Require: "(@CFG.Applied.Ordinal == @T.Status.Rollback.Ordinal && @CFG.Applied.Revision == config/v3.Revision(@T.Status.Rollback.Index)) || (#called(controller/v3/transaction.Reconciler.applyValues) && #passed(" + v3CfgUpd + ") && #wrote(config/v3.AppliedConfiguration.Revision=config/v3.Revision(@T.Status.Rollback.Index)))",
		Why:     "spec: rollback apply Complete is recorded after the applied configuration is back at the rollback index — the recovery branch must recognise exactly that state (ordinal AND revision): a refused rollback also moves the ordinal"})
	// consistency writes of a successful commit
	c.Outcome(engine.Outcome{ID: "C20.4d", Pkg: pkgTxCtlV3, PathsOverride: vp, Root: "Reconciler.commitChange", Min: 1,
		When: "#ok(" + pluginValidate + ")",
		Must: []engine.Sel{{Field: "config/v3.CommittedConfiguration.Index", RHS: "@IDX"}, {Field: "config/v3.CommittedConfiguration.Change", RHS: "@IDX"},
			{Field: "config/v3.CommittedConfiguration.Revision", RHS: "config/v3.Revision(@IDX)"}, {Field: "config/v3.CommittedConfiguration.Ordinal"}, {Call: v3CfgUpd}},
		Why: "spec Consistency: index, change, revision, ordinal (and values) of the committed configuration move together"})
	// (5) completion re-queues index+1
	next := "controller.Result{Requeue:controller.NewID(config/v3.TransactionID{Index:(@IDX + 1),Target:@T.ID.Target})}"
	for _, x := range []struct{ id, lhs, root string }{
		{"C20.5a", "Change.Commit.State", "Reconciler.commitChange"}, {"C20.5b", "Change.Apply.State", "Reconciler.applyChange"}, {"C20.5c", "Rollback.Apply.State", "Reconciler.applyRollback"},
	} {
		lhs := x.lhs
		c.Outcome(engine.Outcome{ID: x.id, Pkg: pkgTxCtlV3, PathsOverride: vp, Root: x.root, Min: 1,
			When:    "true",
			After:   &engine.Sel{Field: v3State, RHS: complete, Filter: func(p *engine.Path, i int) bool { return lhsIs(lhs)(p, i) && !swallowedAfter(p, i) }},
			Result0: next,
			Why:     "the successor in the log is woken when a phase completes"})
	}
	// (6) southbound guards
	g(engine.Guard{ID: "C20.6a", Min: 1, Sel: engine.Sel{Call: sbSet, Filter: inRoot("Reconciler.applyValues", nil)},
		Require: "@CFG.Status.State != config/v3.ConfigurationStatus_SYNCHRONIZING && !(@CFG.Applied.Term < @CFG.Status.Mastership.Term) && @CFG.Status.Mastership.Master != \"\" && err(@REL) == nil && ok(@CONN) && {@REL}topo.Object.GetRelation().SrcEntityID == topo.ID($recv.nodeID)",
		Why:     "as in v2: only the master's node writes, over the master's connection, never while synchronizing or in a stale term"})
	arbitrationV3(c, vp)
	// (9) the value maps of the configuration record are nil when empty (the store loads them so)
	for _, m := range []string{"Committed", "Applied"} {
		f := "config/v3." + m + "Configuration.Values"
		g(engine.Guard{ID: "C20.9/" + m, Min: 1, Sel: engine.Sel{Field: f + "[]"},
			Require: "@CFG." + m + ".Values != nil || #wrote(" + f + ")",
			Why:     "a configuration without values is loaded with a nil map (the controller tests for it elsewhere): an unguarded indexed write panics on the first change of a target"})
	}
	// (10) the shared apply helper records its own failures in the phase being applied
	for _, ph := range []struct{ name, op string }{{"Rollback", "=="}, {"Change", "!="}} {
		pfx := "$Transaction.Status." + ph.name + ".Apply."
		g(engine.Guard{ID: "C20.10/" + ph.name, Min: 1,
			Sel:     engine.Sel{Field: v3State, Filter: inRoot("Reconciler.applyValues", func(p *engine.Path, i int) bool { return strings.HasPrefix(p.Events[i].LHS, pfx) })},
			Require: "@T.Status.Phase " + ph.op + " config/v3.TransactionStatus_ROLLBACK",
			Why:     "applyValues serves both phases; Status.Rollback.Apply is nil in the change phase, and a failure recorded in the other phase's status is never seen by the phase function"})
	}
	// (7) error discipline
	droppedStatusErrors(c)
	errorDomains(c, "C20.7b", []string{pkgTxCtlV3, pkgCfgCtlV3, pkgMsCtlV3})
	// (8) swallowed conflicts
	swallowedConflicts(c, vp)
	// (11) update tables
	v3UpdateTables(c, vp)
	// (12) what the v3 configuration store persists of a value map (rollback values carry older indexes)
	persistTable(c, "C20.12", pkgStoreCfgV3)
	// (13) the candidate a change is validated on is a copy: a refused change leaves the committed record alone
	{
		o := c.Custom("C20.13", "alias(validation scratch)", "every call of applyChangeToConfig in the v3 transaction controller works on a map the calling function allocated itself (make(...)), never on a field of the configuration record",
			"the FAILED branch of a change persists the configuration record: rejected values merged into Committed.Values themselves become committed, and later the rollback values of the next change on that path")
		for _, p := range vp {
			for i := range p.Events {
				e := &p.Events[i]
				if e.Kind != engine.EvCall || e.CalleeName != "controller/v3/transaction.applyChangeToConfig" || len(e.Args) != 3 {
					continue
				}
				o.Site(c.P.Pos(e.Pos))
				o.Eval(1)
				if !strings.HasPrefix(e.Args[0], "make(map[string]config/v3.PathValue") {
					o.Fail(&engine.Violation{Key: "applyChangeToConfig|works on " + stripVer(e.Args[0]), Pos: c.P.Pos(e.Pos), Func: engine.FuncChain(p, i),
						Msg: "applyChangeToConfig is applied to " + c.Render(e.Args[0]) + ", not to a map allocated by the function: the change is merged into the record before it was validated"})
				}
			}
		}
		o.Done(2)
	}
}

func wroteBefore(p *engine.Path, i int, field, rhs string) bool {
	for j := 0; j < i; j++ {
		if e := &p.Events[j]; e.Kind == engine.EvWrite && e.Field == field && e.RHS == rhs {
			return true
		}
	}
	return false
}

// swallowedAfter: after event i a status write failed and was swallowed or returned (the outcome
// then is not the completion result).
func swallowedAfter(p *engine.Path, i int) bool {
	for j := i + 1; j < len(p.Events); j++ {
		e := &p.Events[j]
		if e.Kind == engine.EvCond && strings.HasPrefix(e.Lit.L, "err(") && e.Lit.RNil && e.Lit.Mask == 5 {
			return true
		}
	}
	return false
}

func arbitrationV3(c *engine.Ctx, vp []*engine.Path) {
	o := c.Custom("C20.6b", "K-dataflow(request)", "applyValues: Client.Set receiver is the master relation's connection and the request carries MasterArbitration{ElectionId.Low: uint64(CFG.Applied.Term)}",
		"the device rejects writes of a superseded master only if every write carries the term")
	defer o.Done(1)
	conn := c.Al.Resolve("CONN")
	for _, s := range engine.FindSites(vp, c.Match(engine.Sel{Call: sbSet})) {
		e := s.Ev()
		o.Site(c.P.Pos(e.Pos) + " Set")
		for _, ref := range s.Refs {
			o.Eval(1)
			p := ref.Path
			ev := &p.Events[ref.Idx]
			found := false
			for j := 0; j < ref.Idx; j++ {
				w := &p.Events[j]
				if w.Kind == engine.EvWrite && w.Field == "gnmi.SetRequest.Extension" && len(ev.Args) == 1 && w.LHS == ev.Args[0]+".Extension" &&
					strings.Contains(w.RHS, "ElectionId:&gnmi_ext.Uint128{Low:uint64($Configuration.Applied.Term)}") {
					found = true
				}
			}
			if ev.Recv != conn || !found {
				o.Fail(&engine.Violation{Key: "applyValues|arbitration", Pos: c.P.Pos(e.Pos), Func: p.Root.Name(), Msg: "the Set is not sent over the master's connection with the term as election id"})
				return
			}
		}
	}
}

// droppedStatusErrors: `if err := f(); err != nil { return …, nil }`.
func droppedStatusErrors(c *engine.Ctx) {
	o := c.Custom("C20.7a", "errdiscipline", "in the v3 controllers no `if err := <store write>; err != nil` branch returns a nil error",
		"a failed configuration update answered with success is never retried: the transaction stays where it is")
	defer o.Done(10)
	for _, rel := range []string{pkgTxCtlV3, pkgCfgCtlV3, pkgMsCtlV3} {
		pkg := c.P.Pkg(rel)
		if pkg == nil {
			continue
		}
		for _, fi := range c.P.FuncsOf(pkg) {
			ast.Inspect(fi.Decl.Body, func(n ast.Node) bool {
				ifs, ok := n.(*ast.IfStmt)
				if !ok || ifs.Init == nil || types.ExprString(ifs.Cond) != "err != nil" {
					return true
				}
				as, ok := ifs.Init.(*ast.AssignStmt)
				if !ok || len(as.Rhs) != 1 {
					return true
				}
				call, ok := as.Rhs[0].(*ast.CallExpr)
				if !ok || !strings.Contains(types.ExprString(call.Fun), "update") && !strings.Contains(types.ExprString(call.Fun), "Update") {
					return true
				}
				o.Site("")
				o.Eval(1)
				for _, st := range ifs.Body.List {
					if r, ok := st.(*ast.ReturnStmt); ok && len(r.Results) > 0 && types.ExprString(r.Results[len(r.Results)-1]) == "nil" {
						o.Fail(&engine.Violation{Key: fi.Name() + "|error of " + types.ExprString(call.Fun) + " replaced by nil", Pos: c.P.Pos(r.Pos()), Func: fi.Name(),
							Msg: "the error of " + types.ExprString(call.Fun) + " is tested and then replaced by nil in the return: the failed write is reported as success"})
					}
				}
				return true
			})
		}
	}
}

// swallowedConflicts: C20.8.
func swallowedConflicts(c *engine.Ctx, vp []*engine.Path) {
	o := c.Custom("C20.8", "errdiscipline(swallowed conflict)", "after a status write whose Conflict/NotFound was swallowed by the wrapper, the same pass performs no further store write",
		"the spec models 'first write happened, second did not', never 'first write lost, second performed on a stale read'")
	defer o.Done(1)
	reported := map[string]bool{}
	for _, p := range vp {
		swallowedAt := -1
		var first *engine.Event
		for i := range p.Events {
			e := &p.Events[i]
			if e.Kind == engine.EvCall && (e.CalleeName == v3TxUpd || e.CalleeName == v3CfgUpd) {
				if swallowedAt >= 0 {
					key := p.Root.Name() + "|" + first.CalleeName[strings.Index(first.CalleeName, "/")+1:] + " swallowed, then " + e.CalleeName[strings.Index(e.CalleeName, "/")+1:] + "@" + caseOf(p, i)
					if !reported[key] {
						reported[key] = true
						o.Eval(1)
						o.Fail(&engine.Violation{Key: key, Pos: c.P.Pos(e.Pos), Func: p.Root.Name(),
							Msg: "a second store write is performed in the same pass after the first one's Conflict/NotFound was swallowed: it acts on a stale read"})
					}
					break
				}
				// was this call's error swallowed on this path?
				errv := "err(" + e.Canon + ")"
				failed := false
				for j := i + 1; j < len(p.Events); j++ {
					if l := p.Events[j]; l.Kind == engine.EvCond && l.Lit.L == errv && l.Lit.RNil && l.Lit.Mask == 5 {
						failed = true
					}
					if p.Events[j].Kind == engine.EvLeave {
						if failed && len(p.Events[j].Results) == 1 && p.Events[j].Results[0] == "nil" {
							swallowedAt = i
							first = e
						}
						break
					}
				}
				o.Site("")
			}
		}
	}
}

// caseOf names the state-machine case the event sits in (from the path's state conditions).
func caseOf(p *engine.Path, i int) string {
	out := ""
	for _, l := range engine.CondsBefore(p, i) {
		if strings.HasSuffix(l.L, ".State") && strings.HasPrefix(l.L, "$Transaction.Status.") && l.Mask == 2 {
			out = strings.TrimPrefix(l.L, "$Transaction.Status.") + "=" + strings.TrimPrefix(l.R, v3Pfx)
		}
	}
	return out
}

// ---- C20.11: the update tables of the spec's actions

type v3Must struct {
	field string // field id
	lhs   string // required suffix of the written path ("" = any)
	rhs   string // required right-hand side after stripping version suffixes ("" = any)
	call  string // or: a call
	loop  string // for element writes: prefix of the collection the writing loop ranges over (a path with zero iterations of it is fine)
}

type v3Action struct {
	id     string
	root   string                           // phase function
	lhs    string                           // anchor: $Transaction.Status.<lhs> := state
	state  string                           // anchor state constant (without prefix)
	unless func(p *engine.Path, i int) bool // the anchor is a recovery branch: the table does not apply
	musts  []v3Must
	why    string
}

func stripVers(s string) string {
	var b strings.Builder
	for i := 0; i < len(s); i++ {
		if s[i] == '#' {
			j := i + 1
			for j < len(s) && s[j] >= '0' && s[j] <= '9' {
				j++
			}
			if j > i+1 {
				i = j - 1
				continue
			}
		}
		b.WriteByte(s[i])
	}
	return b.String()
}

func condHolds(p *engine.Path, i int, want string) bool {
	for _, l := range engine.CondsBefore(p, i) {
		if stripVers(l.String()) == want {
			return true
		}
	}
	return false
}

func v3UpdateTables(c *engine.Ctx, vp []*engine.Path) {
	T, CFG, IDX := "$Transaction", "$Configuration", "$Transaction.ID.Index"
	cc, ac := "config/v3.CommittedConfiguration.", "config/v3.AppliedConfiguration."
	rev := func(x string) string { return "config/v3.Revision(" + x + ")" }
	txUpd, cfgUpd := v3Must{call: v3TxUpd}, v3Must{call: v3CfgUpd}
	appliedOwn := func(ord string, withTarget bool) []v3Must {
		m := []v3Must{{field: ac + "Index", rhs: IDX}, {field: ac + "Ordinal", rhs: ord}, cfgUpd, txUpd}
		if withTarget {
			m = append(m, v3Must{field: ac + "Target", rhs: IDX})
		}
		return m
	}
	chOrd, rbOrd := T+".Status.Change.Ordinal", T+".Status.Rollback.Ordinal"
	actions := []v3Action{
		{id: "commit-change/begin", root: "commitChange", lhs: "Change.Commit.State", state: "IN_PROGRESS",
			musts: []v3Must{{field: "config/v3.TransactionRollbackStatus.Index", rhs: "config/v3.Index(" + CFG + ".Committed.Revision)"}, {field: "config/v3.TransactionRollbackStatus.Values"}, txUpd},
			why:   "CommitChange/Pending: the prior revision and the prior values of every path are captured with the transition"},
		{id: "commit-change/complete", root: "commitChange", lhs: "Change.Commit.State", state: "COMPLETE",
			musts: []v3Must{{field: "config/v3.TransactionChangeStatus.Ordinal", rhs: CFG + ".Committed.Ordinal"}, txUpd},
			why:   "CommitChange/InProgress: the change takes the ordinal the committed configuration reached"},
		{id: "commit-change/failed", root: "commitChange", lhs: "Change.Commit.State", state: "FAILED",
			musts: []v3Must{{field: v3State, lhs: "Change.Apply.State", rhs: v3Pfx + "CANCELED"}, {field: cc + "Index", rhs: IDX}, {field: cc + "Change", rhs: IDX}, cfgUpd, txUpd},
			why:   "a rejected change cancels its apply phase and still moves the committed cursors past itself, or its successors never commit"},
		{id: "apply-change/begin", root: "applyChange", lhs: "Change.Apply.State", state: "IN_PROGRESS",
			unless: func(p *engine.Path, i int) bool { return condHolds(p, i, CFG+".Applied.Target == "+IDX) },
			musts:  []v3Must{{field: ac + "Target", rhs: IDX}, cfgUpd, txUpd},
			why:    "ApplyChange/Pending: the applied target is claimed before the phase is marked in progress"},
		{id: "apply-change/complete", root: "applyChange", lhs: "Change.Apply.State", state: "COMPLETE",
			unless: func(p *engine.Path, i int) bool { return condHolds(p, i, CFG+".Applied.Ordinal == "+chOrd) },
			musts:  append(appliedOwn(chOrd, false), v3Must{field: ac + "Revision", rhs: rev(IDX)}, v3Must{field: ac + "Values[]", loop: "controller/v3/transaction.addDeleteChildren("}),
			why:    "ApplyChange/InProgress: index, ordinal, revision and values of the applied configuration move together with the completion"},
		{id: "apply-change/failed", root: "applyChange", lhs: "Change.Apply.State", state: "FAILED", musts: appliedOwn(chOrd, false),
			why: "a refused change still moves the applied index and ordinal past itself"},
		{id: "apply-change/aborted", root: "applyChange", lhs: "Change.Apply.State", state: "ABORTED", musts: appliedOwn(chOrd, true),
			why: "an aborted change moves the applied cursors past itself"},
		{id: "commit-rollback/begin", root: "commitRollback", lhs: "Rollback.Commit.State", state: "IN_PROGRESS",
			unless: func(p *engine.Path, i int) bool { return !condHolds(p, i, CFG+".Committed.Target == "+IDX) },
			musts:  []v3Must{{field: cc + "Target", rhs: T + ".Status.Rollback.Index"}, cfgUpd, txUpd},
			why:    "CommitRollback/Pending: the committed target is moved back to the rollback index before the phase is marked in progress"},
		{id: "commit-rollback/complete", root: "commitRollback", lhs: "Rollback.Commit.State", state: "COMPLETE",
			unless: func(p *engine.Path, i int) bool { return !condHolds(p, i, CFG+".Committed.Revision == "+rev(IDX)) },
			musts: []v3Must{{field: cc + "Values[]", rhs: "elem(" + T + ".Status.Rollback.Values)", loop: T + ".Status.Rollback.Values"}, {field: cc + "Index", rhs: IDX}, {field: cc + "Ordinal", rhs: "(" + CFG + ".Committed.Ordinal + 1)"},
				{field: cc + "Revision", rhs: rev(T + ".Status.Rollback.Index")}, cfgUpd, {field: "config/v3.TransactionRollbackStatus.Ordinal", rhs: CFG + ".Committed.Ordinal"}, txUpd},
			why: "CommitRollback/InProgress: the displaced values are written back and index, ordinal and revision move together"},
		{id: "apply-rollback/abort-change", root: "applyRollback", lhs: "Change.Apply.State", state: "ABORTED", musts: appliedOwn(chOrd, true),
			why: "a pending change that is rolled back is aborted and the applied cursors move past it"},
		{id: "apply-rollback/fail-change", root: "applyRollback", lhs: "Change.Apply.State", state: "FAILED", musts: appliedOwn(chOrd, true),
			why: "a hanging change that is rolled back is failed and the applied cursors move past it"},
		{id: "apply-rollback/begin", root: "applyRollback", lhs: "Rollback.Apply.State", state: "IN_PROGRESS",
			unless: func(p *engine.Path, i int) bool {
				return condHolds(p, i, CFG+".Applied.Target == "+T+".Status.Rollback.Index")
			},
			musts: []v3Must{{field: ac + "Target", rhs: T + ".Status.Rollback.Index"}, cfgUpd, txUpd},
			why:   "ApplyRollback/Pending: the applied target is moved back before the phase is marked in progress"},
		{id: "apply-rollback/complete", root: "applyRollback", lhs: "Rollback.Apply.State", state: "COMPLETE",
			unless: func(p *engine.Path, i int) bool { return condHolds(p, i, CFG+".Applied.Ordinal == "+rbOrd) },
			musts:  append(appliedOwn(rbOrd, false), v3Must{field: ac + "Revision", rhs: rev(T + ".Status.Rollback.Index")}, v3Must{field: ac + "Values[]", loop: "controller/v3/transaction.addDeleteChildren("}),
			why:    "ApplyRollback/InProgress: index, ordinal, revision and values of the applied configuration move together with the completion"},
		{id: "apply-rollback/failed", root: "applyRollback", lhs: "Rollback.Apply.State", state: "FAILED", musts: appliedOwn(rbOrd, false),
			why: "a refused rollback still moves the applied index and ordinal past itself"},
	}
	for _, a := range actions {
		a := a
		o := c.Custom("C20.11/"+a.id, "K-must(update table)", a.root+": a pass that writes Status."+a.lhs+" := "+a.state+" and reports progress (second result true) also performs: "+v3MustText(a.musts), a.why)
		reported := map[string]bool{}
		for _, p := range vp {
			if !strings.HasSuffix(p.Root.Name(), "Reconciler."+a.root) {
				continue
			}
			last := &p.Events[len(p.Events)-1]
			if last.Kind != engine.EvReturn || len(last.Results) != 3 || last.Results[1] != "true" {
				continue
			}
			anchor := -1
			for i := range p.Events {
				e := &p.Events[i]
				if e.Kind == engine.EvWrite && e.Field == v3State && e.LHS == "$Transaction.Status."+a.lhs && e.RHS == v3Pfx+a.state {
					anchor = i
				}
			}
			if anchor < 0 || (a.unless != nil && a.unless(p, anchor)) {
				continue
			}
			o.Site(c.P.Pos(p.Events[anchor].Pos) + " " + a.lhs + " := " + a.state)
			for _, m := range a.musts {
				o.Eval(1)
				found := false
				for i := range p.Events {
					e := &p.Events[i]
					switch {
					case m.call != "":
						if e.Kind == engine.EvCall && e.CalleeName == m.call {
							found = true
						}
					case e.Kind == engine.EvWrite && e.Field == m.field && e.Op != "lit":
						if (m.lhs == "" || strings.HasSuffix(e.LHS, m.lhs)) && (m.rhs == "" || stripVers(e.RHS) == m.rhs || strings.HasPrefix(stripVers(e.RHS), m.rhs)) {
							found = true
						}
					}
				}
				if !found && m.loop != "" {
					// the writing loop is there and this path runs it zero times
					for i := 0; i+1 < len(p.Events); i++ {
						if e := &p.Events[i]; e.Kind == engine.EvLoopEnter && strings.HasPrefix(e.Range, m.loop) && p.Events[i+1].Kind == engine.EvLoopExit {
							found = true
						}
					}
				}
				if !found {
					what := m.call
					if what == "" {
						what = m.field + " := " + m.rhs
					}
					if !reported[what] {
						reported[what] = true
						o.Fail(&engine.Violation{Key: "controller/v3/transaction.Reconciler." + a.root + "|" + a.id + " without " + what, Pos: c.P.Pos(p.Events[anchor].Pos), Func: p.Root.Name(),
							Msg:   "the pass marks " + a.lhs + " " + a.state + " and reports progress without " + what,
							Found: engine.LitsString(engine.CondsBefore(p, anchor))})
					}
				}
			}
		}
		o.Done(1)
	}
}

func v3MustText(ms []v3Must) string {
	var out []string
	for _, m := range ms {
		switch {
		case m.call != "":
			out = append(out, "call "+m.call[strings.Index(m.call, "/")+1:])
		case m.rhs != "":
			out = append(out, m.field[strings.LastIndex(m.field, "/")+1:]+" := "+m.rhs)
		default:
			out = append(out, "write "+m.field[strings.LastIndex(m.field, "/")+1:])
		}
	}
	return strings.Join(out, "; ")
}
