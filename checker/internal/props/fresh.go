package props

import (
	"go/ast"
	"go/token"
	"go/types"
	"strings"

	"occheck/internal/engine"
)

// perIterationFresh: a map or slice that a loop fills element by element and ALSO hands on as a whole
// inside the same loop (into a record literal, a call, an assignment) must be a variable of that
// iteration. Declared outside the loop it still holds what earlier iterations put into it, so the
// second record built by the loop carries the first one's entries too (one Set for two targets: the
// second target's proposal would hold both targets' values).
//
// Decided on the typed syntax tree, per loop L and local variable v of map/slice type declared in the
// same function but outside L:
//
//	filled(v, L)  : L's body contains  v[k] = …  or  v = append(v, …)
//	handed(v, L)  : L's body uses v as a whole value: composite-literal field, call argument (other than
//	                append/len/cap/delete/copy), right-hand side of an assignment to something else,
//	                channel send — return statements are not counted (they leave the loop)
//
// filled ∧ handed is reported. Accumulators that are only read after the loop (the list of proposal
// ids, the slice of results) are not handed inside it and are not reported.
func perIterationFresh(c *engine.Ctx, id string, pkgs []string, min int) {
	o := c.Custom(id, "alias(per-iteration collection)", "a local map/slice that a loop both fills (v[k] = …, v = append(v, …)) and hands on as a whole inside the loop (literal field, call argument, assignment, send) is declared inside that loop's body",
		"a record built per target/per element must carry only that iteration's entries; a collection declared outside the loop accumulates the earlier iterations' entries")
	defer o.Done(min)
	for _, rel := range pkgs {
		pkg := c.P.Pkg(rel)
		if pkg == nil {
			o.Undecided(rel, "package not loaded")
			continue
		}
		info := pkg.TypesInfo
		for _, fi := range c.P.FuncsOf(pkg) {
			if fi.Decl == nil || fi.Decl.Body == nil {
				continue
			}
			fn := fi
			var visit func(n ast.Node) bool
			visit = func(n ast.Node) bool {
				var body *ast.BlockStmt
				switch x := n.(type) {
				case *ast.RangeStmt:
					body = x.Body
				case *ast.ForStmt:
					body = x.Body
				default:
					return true
				}
				o.Site("")
				filled := map[types.Object]token.Pos{}
				handed := map[types.Object]token.Pos{}
				local := func(e ast.Expr) types.Object {
					idn, ok := ast.Unparen(e).(*ast.Ident)
					if !ok {
						return nil
					}
					obj, ok := info.Uses[idn].(*types.Var)
					if !ok || obj.IsField() || obj.Parent() == nil || obj.Parent() == pkg.Types.Scope() {
						return nil
					}
					switch obj.Type().Underlying().(type) {
					case *types.Map, *types.Slice:
					default:
						return nil
					}
					// declared in this function, outside the loop body
					if obj.Pos() < fn.Decl.Pos() || obj.Pos() > fn.Decl.End() || (obj.Pos() >= n.Pos() && obj.Pos() <= n.End()) {
						return nil
					}
					return obj
				}
				hand := func(e ast.Expr) {
					if obj := local(e); obj != nil {
						if _, ok := handed[obj]; !ok {
							handed[obj] = e.Pos()
						}
					}
				}
				ast.Inspect(body, func(m ast.Node) bool {
					switch y := m.(type) {
					case *ast.FuncLit:
						return false
					case *ast.ReturnStmt:
						return false
					case *ast.AssignStmt:
						for i, l := range y.Lhs {
							if ix, ok := l.(*ast.IndexExpr); ok {
								if obj := local(ix.X); obj != nil {
									if _, ok := filled[obj]; !ok {
										filled[obj] = l.Pos()
									}
								}
							}
							if i < len(y.Rhs) && len(y.Lhs) == len(y.Rhs) {
								r := ast.Unparen(y.Rhs[i])
								if call, ok := r.(*ast.CallExpr); ok && isBuiltin(info, call, "append") && len(call.Args) > 0 {
									if lo, ro := local(l), local(call.Args[0]); lo != nil && lo == ro {
										if _, ok := filled[lo]; !ok {
											filled[lo] = l.Pos()
										}
										continue
									}
								}
								if local(l) == nil || local(l) != local(r) {
									hand(r)
								}
							}
						}
					case *ast.CompositeLit:
						for _, el := range y.Elts {
							if kv, ok := el.(*ast.KeyValueExpr); ok {
								hand(kv.Value)
							} else {
								hand(el)
							}
						}
					case *ast.CallExpr:
						if isBuiltin(info, y, "append", "len", "cap", "delete", "copy") {
							// append(other, v...) hands v's elements on, not v
							return true
						}
						for _, a := range y.Args {
							hand(a)
						}
					case *ast.SendStmt:
						hand(y.Value)
					}
					return true
				})
				for obj, fp := range filled {
					o.Eval(1)
					if hp, ok := handed[obj]; ok {
						o.Fail(&engine.Violation{Key: fn.Name() + "|" + obj.Name() + " accumulates across iterations", Pos: c.P.Pos(hp), Func: fn.Name(),
							Msg: "the collection " + obj.Name() + " (declared at " + c.P.Pos(obj.Pos()) + ", outside the loop at " + c.P.Pos(n.Pos()) + ") is filled inside the loop at " + c.P.Pos(fp) + " and handed on as a whole inside the same loop: the record built by a later iteration carries the earlier iterations' entries"})
					}
				}
				return true
			}
			ast.Inspect(fi.Decl.Body, visit)
		}
	}
}

func isBuiltin(info *types.Info, call *ast.CallExpr, names ...string) bool {
	idn, ok := ast.Unparen(call.Fun).(*ast.Ident)
	if !ok {
		return false
	}
	if _, ok := info.Uses[idn].(*types.Builtin); !ok {
		return false
	}
	for _, n := range names {
		if idn.Name == n {
			return true
		}
	}
	return false
}

var _ = strings.HasPrefix
