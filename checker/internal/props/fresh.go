package props

import (
	"go/ast"
	"go/token"
	"go/types"
	"strings"

	"occheck/internal/engine"
)

// perIterationFresh: a map or slice that a loop fills element by element and ALSO hands on as a whole
// inside the same loop (into a record literal, a call, an assignment) must be a variable of that
// iteration. Declared outside the loop it still holds what earlier iterations put into it, so the
// second record built by the loop carries the first one's entries too (one Set for two targets: the
// second target's proposal would hold both targets' values).
//
// Decided on the typed syntax tree, per loop L and local variable v of map/slice type declared in the
// same function but outside L:
//
//	filled(v, L)  : L's body contains  v[k] = …  or  v = append(v, …)
//	handed(v, L)  : L's body uses v as a whole value: composite-literal field, call argument (other than
//	                append/len/cap/delete/copy), right-hand side of an assignment to something else,
//	                channel send — return statements are not counted (they leave the loop)
//
// filled ∧ handed is reported. Accumulators that are only read after the loop (the list of proposal
// ids, the slice of results) are not handed inside it and are not reported.
func perIterationFresh(c *engine.Ctx, id string, pkgs []string, min int) {
	o := c.Custom(id, "alias(per-iteration collection)", "a local map/slice that a loop both fills (v[k] = …, v = append(v, …)) and hands on as a whole inside the loop (literal field, call argument, assignment, send) is declared inside that loop's body",
		"a record built per target/per element must carry only that iteration's entries; a collection declared outside the loop accumulates the earlier iterations' entries")
	defer o.Done(min)
	for _, rel := range pkgs {
		pkg := c.P.Pkg(rel)
		if pkg == nil {
			o.Undecided(rel, "package not loaded")
			continue
		}
		info := pkg.TypesInfo
		for _, fi := range c.P.FuncsOf(pkg) {
			if fi.Decl == nil || fi.Decl.Body == nil {
				continue
			}
			fn := fi
			var visit func(n ast.Node) bool
			visit = func(n ast.Node) bool {
				var body *ast.BlockStmt
				switch x := n.(type) {
				case *ast.RangeStmt:
					body = x.Body
				case *ast.ForStmt:
					body = x.Body
				default:
					return true
				}
				o.Site("")
				filled := map[types.Object]token.Pos{}
				handed := map[types.Object]token.Pos{}
				local := func(e ast.Expr) types.Object {
					idn, ok := ast.Unparen(e).(*ast.Ident)
					if !ok {
						return nil
					}
					obj, ok := info.Uses[idn].(*types.Var)
					if !ok || obj.IsField() || obj.Parent() == nil || obj.Parent() == pkg.Types.Scope() {
						return nil
					}
					switch obj.Type().Underlying().(type) {
					case *types.Map, *types.Slice:
					default:
						return nil
					}
					// declared in this function, outside the loop body
					if obj.Pos() < fn.Decl.Pos() || obj.Pos() > fn.Decl.End() || (obj.Pos() >= n.Pos() && obj.Pos() <= n.End()) {
						return nil
					}
					return obj
				}
				hand := func(e ast.Expr) {
					if obj := local(e); obj != nil {
						if _, ok := handed[obj]; !ok {
							handed[obj] = e.Pos()
						}
					}
				}
				ast.Inspect(body, func(m ast.Node) bool {
					switch y := m.(type) {
					case *ast.FuncLit:
						return false
					case *ast.ReturnStmt:
						return false
					case *ast.AssignStmt:
						for i, l := range y.Lhs {
							if ix, ok := l.(*ast.IndexExpr); ok {
								if obj := local(ix.X); obj != nil {
									if _, ok := filled[obj]; !ok {
										filled[obj] = l.Pos()
									}
								}
							}
							if i < len(y.Rhs) && len(y.Lhs) == len(y.Rhs) {
								r := ast.Unparen(y.Rhs[i])
								if call, ok := r.(*ast.CallExpr); ok && isBuiltin(info, call, "append") && len(call.Args) > 0 {
									if lo, ro := local(l), local(call.Args[0]); lo != nil && lo == ro {
										if _, ok := filled[lo]; !ok {
											filled[lo] = l.Pos()
										}
										continue
									}
								}
								if local(l) == nil || local(l) != local(r) {
									hand(r)
								}
							}
						}
					case *ast.CompositeLit:
						for _, el := range y.Elts {
							if kv, ok := el.(*ast.KeyValueExpr); ok {
								hand(kv.Value)
							} else {
								hand(el)
							}
						}
					case *ast.CallExpr:
						if isBuiltin(info, y, "append", "len", "cap", "delete", "copy") {
							// append(other, v...) hands v's elements on, not v
							return true
						}
						for ai, a := range y.Args {
							// an argument that a function of this module only READS (ranges over, indexes,
							// measures) is not handed on: `if isBeneathAny(path, deleted) {…}` keeps nothing
							if paramOnlyRead(c, info, y, ai) || callsNewHelper(c, info, y) {
								continue // (a helper the tables have never seen is part of this loop body, not a recipient)
							}
							hand(a)
						}
					case *ast.SendStmt:
						hand(y.Value)
					}
					return true
				})
				for obj, fp := range filled {
					o.Eval(1)
					if hp, ok := handed[obj]; ok {
						o.Fail(&engine.Violation{Key: fn.Name() + "|" + obj.Name() + " accumulates across iterations", Pos: c.P.Pos(hp), Func: fn.Name(),
							Msg: "the collection " + obj.Name() + " (declared at " + c.P.Pos(obj.Pos()) + ", outside the loop at " + c.P.Pos(n.Pos()) + ") is filled inside the loop at " + c.P.Pos(fp) + " and handed on as a whole inside the same loop: the record built by a later iteration carries the earlier iterations' entries"})
					}
				}
				return true
			}
			ast.Inspect(fi.Decl.Body, visit)
		}
	}
}

func isBuiltin(info *types.Info, call *ast.CallExpr, names ...string) bool {
	idn, ok := ast.Unparen(call.Fun).(*ast.Ident)
	if !ok {
		return false
	}
	if _, ok := info.Uses[idn].(*types.Builtin); !ok {
		return false
	}
	for _, n := range names {
		if idn.Name == n {
			return true
		}
	}
	return false
}

var _ = strings.HasPrefix

// lastWins: a scalar declared outside a loop, assigned inside it from the loop's element and read after
// the loop holds the LAST element's value: as an attribute of the whole collection (the precision of a
// decimal leaf-list) it is right only if all elements agree. Reported unless the loop body compares the
// variable with the value it is about to take (an == / != between v and the same element expression,
// conversions ignored), or the assignment is a plain search result (the loop breaks/returns right after).
func lastWins(c *engine.Ctx, id string, pkgs []string, min int) {
	o := c.Custom(id, "dataflow(last element wins)", "a scalar variable declared outside a loop, assigned in the loop from an expression of the loop's element, and read after the loop, is compared (== / !=) inside the loop with the value it is about to take — or the loop is left right after the assignment",
		"one attribute for a whole list taken from its last element silently changes the other elements' meaning (decimal leaf-list [15/1, 225/2] stored with precision 2: 1.5 becomes 0.15)")
	defer o.Done(min)
	strip := func(e ast.Expr) string { // text without conversions/parens
		for {
			e = ast.Unparen(e)
			if call, ok := e.(*ast.CallExpr); ok && len(call.Args) == 1 {
				if id, ok := call.Fun.(*ast.Ident); ok {
					switch id.Name {
					case "uint8", "uint16", "uint32", "uint64", "int8", "int16", "int32", "int64", "int", "uint", "float32", "float64", "string":
						e = call.Args[0]
						continue
					}
				}
			}
			return types.ExprString(e)
		}
	}
	for _, rel := range pkgs {
		pkg := c.P.Pkg(rel)
		if pkg == nil {
			o.Undecided(rel, "package not loaded")
			continue
		}
		info := pkg.TypesInfo
		for _, fi := range c.P.FuncsOf(pkg) {
			if fi.Decl == nil || fi.Decl.Body == nil {
				continue
			}
			fn := fi
			ast.Inspect(fi.Decl.Body, func(n ast.Node) bool {
				rs, ok := n.(*ast.RangeStmt)
				if !ok || rs.Value == nil && rs.Key == nil {
					return true
				}
				loopVars := map[types.Object]bool{}
				for _, e := range []ast.Expr{rs.Key, rs.Value} {
					if idn, ok := e.(*ast.Ident); ok && idn.Name != "_" {
						if obj := info.Defs[idn]; obj != nil {
							loopVars[obj] = true
						}
					}
				}
				// variables derived from the loop variable by a type switch / assertion / := inside the body
				ast.Inspect(rs.Body, func(m ast.Node) bool {
					switch y := m.(type) {
					case *ast.TypeSwitchStmt:
						if as, ok := y.Assign.(*ast.AssignStmt); ok && len(as.Lhs) == 1 {
							for _, cl := range y.Body.List {
								if obj := info.Implicits[cl]; obj != nil {
									loopVars[obj] = true
								}
							}
						}
					}
					return true
				})
				mentionsLoopVar := func(e ast.Expr) bool {
					found := false
					ast.Inspect(e, func(m ast.Node) bool {
						if idn, ok := m.(*ast.Ident); ok && loopVars[info.Uses[idn]] {
							found = true
						}
						return !found
					})
					return found
				}
				type asg struct {
					obj  types.Object
					rhs  ast.Expr
					stmt *ast.AssignStmt
				}
				var asgs []asg
				var walk func(list []ast.Stmt)
				leaves := map[*ast.AssignStmt]bool{} // followed by break/return in its block
				walk = func(list []ast.Stmt) {
					for i, st := range list {
						if as, ok := st.(*ast.AssignStmt); ok && as.Tok == token.ASSIGN && len(as.Lhs) == len(as.Rhs) {
							for k, l := range as.Lhs {
								idn, ok := l.(*ast.Ident)
								if !ok {
									continue
								}
								obj, ok := info.Uses[idn].(*types.Var)
								if !ok || obj.Pos() >= rs.Pos() && obj.Pos() <= rs.End() || obj.Pos() < fn.Decl.Pos() || obj.Pos() > fn.Decl.End() {
									continue
								}
								if b, ok := obj.Type().Underlying().(*types.Basic); !ok || b.Info()&(types.IsNumeric|types.IsString) == 0 {
									continue
								}
								if !mentionsLoopVar(as.Rhs[k]) {
									continue
								}
								// self-referencing updates (x = x + e, max/min patterns) are accumulations
								self := false
								ast.Inspect(as.Rhs[k], func(m ast.Node) bool {
									if i2, ok := m.(*ast.Ident); ok && info.Uses[i2] == obj {
										self = true
									}
									return !self
								})
								if self {
									continue
								}
								asgs = append(asgs, asg{obj, as.Rhs[k], as})
								if i+1 < len(list) {
									switch nx := list[i+1].(type) {
									case *ast.ReturnStmt:
										leaves[as] = true
									case *ast.BranchStmt:
										if nx.Tok == token.BREAK || nx.Tok == token.GOTO {
											leaves[as] = true
										}
									}
								}
							}
						}
						ast.Inspect(st, func(m ast.Node) bool {
							switch y := m.(type) {
							case *ast.FuncLit:
								return false
							case *ast.BlockStmt:
								if m != st {
									walk(y.List)
									return false
								}
							case *ast.CaseClause:
								walk(y.Body)
								return false
							case *ast.CommClause:
								walk(y.Body)
								return false
							}
							return true
						})
					}
				}
				walk(rs.Body.List)
				for _, a := range asgs {
					// read after the loop?
					readAfter := false
					ast.Inspect(fn.Decl.Body, func(m ast.Node) bool {
						if idn, ok := m.(*ast.Ident); ok && idn.Pos() > rs.End() && info.Uses[idn] == a.obj {
							readAfter = true
						}
						return !readAfter
					})
					if !readAfter {
						continue
					}
					o.Site(c.P.Pos(a.stmt.Pos()) + " " + a.obj.Name() + " in " + fn.Name())
					o.Eval(1)
					if leaves[a.stmt] {
						continue
					}
					want := strip(a.rhs)
					compared := false
					ast.Inspect(rs.Body, func(m ast.Node) bool {
						b, ok := m.(*ast.BinaryExpr)
						if !ok || (b.Op != token.EQL && b.Op != token.NEQ) {
							return true
						}
						x, y := strip(b.X), strip(b.Y)
						if (x == a.obj.Name() && y == want) || (y == a.obj.Name() && x == want) {
							compared = true
						}
						return !compared
					})
					if compared {
						continue
					}
					o.Fail(&engine.Violation{Key: fn.Name() + "|" + a.obj.Name() + " keeps the last element's value", Pos: c.P.Pos(a.stmt.Pos()), Func: fn.Name(),
						Msg: a.obj.Name() + " is assigned from " + types.ExprString(a.rhs) + " in every iteration and read after the loop: it holds the last element's value, and nothing in the loop checks that the elements agree"})
				}
				return true
			})
		}
	}
}

// paramOnlyRead: the callee is a function of the module with a body, and inside it the parameter that receives
// argument ai is never assigned from, stored, appended, sent, returned or passed on — every use is the operand of a
// range statement, an index/slice expression or len/cap.
func paramOnlyRead(c *engine.Ctx, info *types.Info, call *ast.CallExpr, ai int) bool {
	var id *ast.Ident
	switch f := ast.Unparen(call.Fun).(type) {
	case *ast.Ident:
		id = f
	case *ast.SelectorExpr:
		id = f.Sel
	}
	if id == nil {
		return false
	}
	fn, _ := info.Uses[id].(*types.Func)
	target := c.P.Funcs[fn]
	if target == nil || target.Decl.Type.Params == nil {
		return false
	}
	var param types.Object
	i := 0
	for _, f := range target.Decl.Type.Params.List {
		if _, variadic := f.Type.(*ast.Ellipsis); variadic {
			return false
		}
		for _, n := range f.Names {
			if i == ai {
				param = target.Pkg.TypesInfo.Defs[n]
			}
			i++
		}
		if len(f.Names) == 0 {
			i++
		}
	}
	if param == nil {
		return false
	}
	tinfo := target.Pkg.TypesInfo
	parent := map[ast.Node]ast.Node{}
	var stack []ast.Node
	ast.Inspect(target.Decl.Body, func(n ast.Node) bool {
		if n == nil {
			stack = stack[:len(stack)-1]
			return true
		}
		if len(stack) > 0 {
			parent[n] = stack[len(stack)-1]
		}
		stack = append(stack, n)
		return true
	})
	only := true
	ast.Inspect(target.Decl.Body, func(n ast.Node) bool {
		idn, ok := n.(*ast.Ident)
		if !ok || tinfo.Uses[idn] != param {
			return true
		}
		switch p := parent[idn].(type) {
		case *ast.RangeStmt:
			if p.X != ast.Expr(idn) {
				only = false
			}
		case *ast.IndexExpr:
			if p.X != ast.Expr(idn) {
				only = false
			}
			if as, ok := parent[p].(*ast.AssignStmt); ok {
				for _, l := range as.Lhs {
					if l == ast.Expr(p) {
						only = false // written through
					}
				}
			}
		case *ast.SliceExpr:
			only = false
		case *ast.CallExpr:
			if !isBuiltin(tinfo, p, "len", "cap") {
				only = false
			}
		default:
			only = false
		}
		return true
	})
	return only
}

func callsNewHelper(c *engine.Ctx, info *types.Info, call *ast.CallExpr) bool {
	var id *ast.Ident
	switch f := ast.Unparen(call.Fun).(type) {
	case *ast.Ident:
		id = f
	case *ast.SelectorExpr:
		id = f.Sel
	}
	if id == nil {
		return false
	}
	fn, _ := info.Uses[id].(*types.Func)
	return engine.IsNewHelper(c.P.Funcs[fn])
}
