package engine

import (
	"go/ast"
	"go/token"
	"go/types"
	"sort"
	"strings"
)

// ErrDomain classifies where an error value comes from.
type ErrDomain int

// Error domains.
const (
	DomNone  ErrDomain = 0
	DomTyped ErrDomain = 1 << iota // onos-lib-go *errors.TypedError (FromGRPC, FromAtomix, New*)
	DomGRPC                        // google.golang.org/grpc/status errors
	DomRaw                         // an error of some other origin passed through unwrapped
)

func (d ErrDomain) String() string {
	var s []string
	if d&DomTyped != 0 {
		s = append(s, "typed(onos-lib-go errors)")
	}
	if d&DomGRPC != 0 {
		s = append(s, "grpc-status")
	}
	if d&DomRaw != 0 {
		s = append(s, "raw")
	}
	if len(s) == 0 {
		return "none"
	}
	return strings.Join(s, "+")
}

const errorsPkg = "github.com/onosproject/onos-lib-go/pkg/errors"
const statusPkg = "google.golang.org/grpc/status"

// ErrDomains computes the error domain of module functions and interface methods.
type ErrDomains struct {
	P    *Prog
	memo map[*types.Func]ErrDomain
	busy map[*types.Func]bool
}

// NewErrDomains creates the analysis.
func NewErrDomains(p *Prog) *ErrDomains {
	return &ErrDomains{P: p, memo: map[*types.Func]ErrDomain{}, busy: map[*types.Func]bool{}}
}

// Implementations returns the module's non-mock concrete methods that implement an interface method.
func (d *ErrDomains) Implementations(m *types.Func) []*types.Func {
	sig := m.Type().(*types.Signature)
	if sig.Recv() == nil {
		return nil
	}
	iface, ok := sig.Recv().Type().Underlying().(*types.Interface)
	if !ok {
		return nil
	}
	var out []*types.Func
	seen := map[*types.Func]bool{}
	for _, pkg := range d.P.Pkgs {
		if strings.Contains(pkg.PkgPath, "/internal/") {
			continue
		}
		sc := pkg.Types.Scope()
		for _, n := range sc.Names() {
			tn, ok := sc.Lookup(n).(*types.TypeName)
			if !ok || types.IsInterface(tn.Type()) {
				continue
			}
			for _, t := range []types.Type{tn.Type(), types.NewPointer(tn.Type())} {
				if !types.Implements(t, iface) {
					continue
				}
				ms := types.NewMethodSet(t)
				if sel := ms.Lookup(m.Pkg(), m.Name()); sel != nil {
					if f, ok := sel.Obj().(*types.Func); ok && !seen[f] {
						seen[f] = true
						out = append(out, f)
					}
				}
				break
			}
		}
	}
	sort.Slice(out, func(i, j int) bool { return out[i].FullName() < out[j].FullName() })
	return out
}

// Of returns the domain of the error result of f.
func (d *ErrDomains) Of(f *types.Func) ErrDomain {
	if f == nil {
		return DomRaw
	}
	if v, ok := d.memo[f]; ok {
		return v
	}
	if d.busy[f] {
		return DomNone
	}
	d.busy[f] = true
	defer delete(d.busy, f)
	var res ErrDomain
	switch {
	case f.Pkg() != nil && f.Pkg().Path() == errorsPkg:
		res = DomTyped
	case f.Pkg() != nil && f.Pkg().Path() == statusPkg:
		res = DomGRPC
	case isInterfaceMethod(f):
		impls := d.Implementations(f)
		if len(impls) == 0 {
			res = DomRaw
		}
		for _, im := range impls {
			res |= d.Of(im)
		}
	default:
		fi := d.P.Funcs[f]
		if fi == nil {
			res = DomRaw // a function outside the module: its error is whatever it is
		} else {
			res = d.ofBody(fi)
		}
	}
	d.memo[f] = res
	return res
}

func (d *ErrDomains) ofBody(fi *FuncInfo) ErrDomain {
	info := fi.Pkg.TypesInfo
	sig := fi.Obj.Type().(*types.Signature)
	n := sig.Results().Len()
	if n == 0 || !isErrorType(sig.Results().At(n-1).Type()) {
		return DomNone
	}
	var res ErrDomain
	ast.Inspect(fi.Decl.Body, func(nd ast.Node) bool {
		switch x := nd.(type) {
		case *ast.FuncLit:
			return false
		case *ast.ReturnStmt:
			if len(x.Results) == n {
				res |= d.ofExpr(x.Results[n-1], fi, info, 0)
			} else if len(x.Results) == 1 {
				// return f(...) forwarding a tuple
				if call, ok := ast.Unparen(x.Results[0]).(*ast.CallExpr); ok {
					res |= d.ofCall(call, fi, info)
				}
			}
		}
		return true
	})
	return res
}

func (d *ErrDomains) ofCall(call *ast.CallExpr, fi *FuncInfo, info *types.Info) ErrDomain {
	var id *ast.Ident
	switch f := ast.Unparen(call.Fun).(type) {
	case *ast.Ident:
		id = f
	case *ast.SelectorExpr:
		id = f.Sel
	}
	if id == nil {
		return DomRaw
	}
	if fn, ok := info.Uses[id].(*types.Func); ok {
		// (*status.Status).Err()
		if fn.Pkg() != nil && fn.Pkg().Path() == "google.golang.org/grpc/internal/status" {
			return DomGRPC
		}
		return d.Of(fn)
	}
	return DomRaw
}

// ofExpr classifies an error-typed expression inside fi.
func (d *ErrDomains) ofExpr(e ast.Expr, fi *FuncInfo, info *types.Info, depth int) ErrDomain {
	e = ast.Unparen(e)
	switch x := e.(type) {
	case *ast.Ident:
		if x.Name == "nil" {
			return DomNone
		}
		obj := info.Uses[x]
		if obj == nil || depth > 4 {
			return DomRaw
		}
		// union over the assignments of this variable in the function
		var res ErrDomain
		found := false
		ast.Inspect(fi.Decl, func(nd ast.Node) bool {
			as, ok := nd.(*ast.AssignStmt)
			if !ok {
				return true
			}
			for i, l := range as.Lhs {
				lid, ok := l.(*ast.Ident)
				if !ok {
					continue
				}
				lo := info.Defs[lid]
				if lo == nil {
					lo = info.Uses[lid]
				}
				if lo != obj {
					continue
				}
				found = true
				if len(as.Rhs) == len(as.Lhs) {
					// err = errors.FromX(err) re-wraps: classify the wrapper, not its argument
					res |= d.ofExpr(as.Rhs[i], fi, info, depth+1)
				} else if len(as.Rhs) == 1 {
					if call, ok := ast.Unparen(as.Rhs[0]).(*ast.CallExpr); ok {
						res |= d.ofCall(call, fi, info)
					} else {
						res |= DomRaw
					}
				}
			}
			return true
		})
		if !found {
			return DomRaw // parameter or captured
		}
		return res
	case *ast.CallExpr:
		return d.ofCall(x, fi, info)
	}
	return DomRaw
}

// ClassifierDomain returns the domain a classifier function expects, or DomNone.
func ClassifierDomain(f *types.Func) ErrDomain {
	if f == nil || f.Pkg() == nil {
		return DomNone
	}
	switch f.Pkg().Path() {
	case errorsPkg:
		n := f.Name()
		if strings.HasPrefix(n, "Is") || n == "TypeOf" || n == "Status" {
			return DomTyped
		}
	case statusPkg:
		switch f.Name() {
		case "Code", "Convert", "FromError":
			return DomGRPC
		}
	}
	return DomNone
}

// SwitchTable extracts from the first tagged switch of a function body the map
// case-expression-text -> pick(case body). Used for the error-class tables.
func SwitchTable(body *ast.BlockStmt, tagContains string, pick func(stmts []ast.Stmt) string) map[string]string {
	out := map[string]string{}
	done := false
	ast.Inspect(body, func(n ast.Node) bool {
		sw, ok := n.(*ast.SwitchStmt)
		if !ok || done || sw.Tag == nil {
			return true
		}
		if tagContains != "" && !strings.Contains(types.ExprString(sw.Tag), tagContains) {
			return true
		}
		done = true
		for _, c := range sw.Body.List {
			cc := c.(*ast.CaseClause)
			v := pick(cc.Body)
			if cc.List == nil {
				out["default"] = v
			}
			for _, e := range cc.List {
				out[types.ExprString(e)] = v
			}
		}
		return false
	})
	return out
}

// ParseFuncBodies parses a Go source file and returns its function declarations by name.
func ParseFuncBodies(file string) (map[string]*ast.FuncDecl, error) {
	fset := token.NewFileSet()
	f, err := parseFile(fset, file)
	if err != nil {
		return nil, err
	}
	out := map[string]*ast.FuncDecl{}
	for _, d := range f.Decls {
		if fd, ok := d.(*ast.FuncDecl); ok && fd.Body != nil && fd.Recv == nil {
			out[fd.Name.Name] = fd
		}
	}
	return out, nil
}
