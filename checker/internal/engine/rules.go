package engine

import (
	"fmt"
	"go/ast"
	"go/types"
	"sort"
	"strings"
)

// Ctx is what a property's obligation code works with.
type Ctx struct {
	A  *Analysis
	P  *Prog
	R  *Report
	Al *Aliases
}

// Sel selects path events.
type Sel struct {
	Call     string // callee short name (exact)
	CallAny  []string
	Field    string // written field id ("config/v2.ProposalApplyPhase.State")
	RHS      string // canonical right-hand side (aliases allowed); "" = any
	RHSIn    []string
	NotRHS   string
	Lit      bool // also match composite-literal key writes
	OnlyLit  bool
	Deferred bool // include deferred executions of calls
	Filter   func(p *Path, i int) bool
}

// Describe renders the selector.
func (s Sel) Describe() string {
	switch {
	case s.Call != "":
		return "call " + s.Call
	case len(s.CallAny) > 0:
		return "call " + strings.Join(s.CallAny, "|")
	case s.Field != "":
		d := "write " + s.Field
		if s.RHS != "" {
			d += " := " + s.RHS
		}
		if len(s.RHSIn) > 0 {
			d += " := {" + strings.Join(s.RHSIn, ",") + "}"
		}
		if s.NotRHS != "" {
			d += " := anything but " + s.NotRHS
		}
		return d
	}
	return "custom"
}

// Match builds the event matcher.
func (c *Ctx) Match(s Sel) func(p *Path, i int) bool {
	rhs := s.RHS
	notRHS := s.NotRHS
	var rhsIn []string
	if c.Al != nil {
		rhs = c.Al.Expand(rhs)
		notRHS = c.Al.Expand(notRHS)
		for _, x := range s.RHSIn {
			rhsIn = append(rhsIn, c.Al.Expand(x))
		}
	} else {
		rhsIn = s.RHSIn
	}
	return func(p *Path, i int) bool {
		e := &p.Events[i]
		ok := false
		switch {
		case s.Call != "" || len(s.CallAny) > 0:
			if e.Kind != EvCall || (e.Deferred && !s.Deferred) {
				return false
			}
			ok = e.CalleeName == s.Call
			for _, n := range s.CallAny {
				if e.CalleeName == n {
					ok = true
				}
			}
		case s.Field != "":
			if e.Kind != EvWrite || e.Field != s.Field {
				return false
			}
			if e.Op == "lit" && !s.Lit && !s.OnlyLit {
				return false
			}
			if s.OnlyLit && e.Op != "lit" {
				return false
			}
			ok = true
			if rhs != "" && e.RHS != rhs {
				ok = false
			}
			if len(rhsIn) > 0 {
				ok = false
				for _, x := range rhsIn {
					if e.RHS == x {
						ok = true
					}
				}
			}
			if notRHS != "" && e.RHS == notRHS {
				ok = false
			}
		default:
			ok = s.Filter != nil
		}
		if ok && s.Filter != nil {
			ok = s.Filter(p, i)
		}
		return ok
	}
}

// Guard is a K-guard obligation: every selected site must be reached only under Require.
type Guard struct {
	ID      string
	Pkg     string
	Sel     Sel
	Require string // clause that the path condition must entail
	Forbid  string // clause that the path condition must NOT entail (negative form)
	Min     int    // minimum number of distinct sites (anchor must exist)
	Max     int    // maximum number of distinct sites (0 = unlimited)
	None    bool   // expected-zero rule: every matching site is a violation
	Why     string
	Rule    string
}

// SiteKey builds the line-free construct key of a site.
func SiteKey(p *Path, idx int, desc string) string {
	return FuncChainNoPos(p, idx) + "|" + desc
}

// FuncChainNoPos is the chain of function names from the root to the event.
func FuncChainNoPos(p *Path, idx int) string {
	s := FuncChain(p, idx)
	return s
}

func eventDesc(e *Event) string {
	switch e.Kind {
	case EvCall, EvGo, EvDefer:
		if e.CalleeName != "" {
			return "call " + e.CalleeName
		}
		return "call (dynamic)"
	case EvWrite:
		f := e.Field
		if f == "" {
			f = e.LHS
		}
		return "write " + f + " := " + e.RHS
	case EvReturn:
		return "return"
	case EvSend:
		return "send " + e.Chan
	}
	return e.Kind.String()
}

// keyer hands out construct keys with ordinals for repeated descriptors.
type keyer struct{ seen map[string]int }

func (k *keyer) key(p *Path, idx int, al *Aliases) string {
	if k.seen == nil {
		k.seen = map[string]int{}
	}
	d := eventDesc(&p.Events[idx])
	if al != nil {
		d = al.Render(d)
	}
	base := SiteKey(p, idx, d)
	k.seen[base]++
	if n := k.seen[base]; n > 1 {
		return fmt.Sprintf("%s#%d", base, n)
	}
	return base
}

// RenderConds renders path literals with aliases.
func (c *Ctx) RenderConds(ls []Lit) string {
	var s []string
	for _, l := range ls {
		s = append(s, c.Render(l.String()))
	}
	return strings.Join(s, " ∧ ")
}

// Render abbreviates a canonical string.
func (c *Ctx) Render(s string) string {
	if c.Al != nil {
		return c.Al.Render(s)
	}
	return c.P.Render(s, nil)
}

// PathTrace renders the decisive events of a path up to idx (conditions, calls to the module and
// to stores, field writes).
func (c *Ctx) PathTrace(p *Path, idx int) []string {
	var out []string
	for i := 0; i <= idx && i < len(p.Events); i++ {
		e := &p.Events[i]
		switch e.Kind {
		case EvCond, EvReturn, EvLoopEnter, EvLoopExit, EvSend, EvRecv, EvGo:
		case EvWrite:
			if e.Local != nil {
				continue
			}
		case EvCall:
			if strings.HasPrefix(e.CalleeName, "logging.") || isPureBuiltin(e.CalleeName) || e.Inlined {
				continue
			}
		default:
			continue
		}
		out = append(out, c.P.Pos(e.Pos)+" "+c.Render(c.A.DescribeEvent(e)))
	}
	return out
}

// Guard evaluates a K-guard obligation.
func (c *Ctx) Guard(g Guard) *OblResult {
	rule := g.Rule
	if rule == "" {
		rule = "K-guard"
	}
	res := &OblResult{ID: g.ID, Rule: rule, Clause: g.Sel.Describe() + "  ⇒  " + g.Require, Why: g.Why}
	if g.Forbid != "" {
		res.Clause = g.Sel.Describe() + "  ⇏  " + g.Forbid
	}
	c.R.Add(res)
	fail := func(v *Violation) {
		v.Obligation = g.ID
		v.Rule = rule
		res.Violations++
		c.R.Violate(v)
	}
	paths, err := c.A.Paths(g.Pkg)
	if err != nil {
		fail(&Violation{Key: g.Pkg, Msg: err.Error(), Undecided: true})
		return res
	}
	var clause Formula
	src := g.Require
	if g.Forbid != "" {
		src = g.Forbid
	}
	clause, err = ParseClause(src, c.Al, c.P)
	if err != nil {
		fail(&Violation{Key: g.ID, Msg: "bad clause: " + err.Error(), Undecided: true})
		return res
	}
	if strings.Contains(FString2(clause), "@UNDEFINED") {
		fail(&Violation{Key: g.ID, Msg: "clause uses an undefined alias: " + FString2(clause), Undecided: true})
		return res
	}
	sites := FindSites(paths, c.Match(g.Sel))
	res.Sites = len(sites)
	if g.None {
		res.Clause = "no " + g.Sel.Describe()
		res.Evaluations += len(paths)
		var ky keyer
		for _, s := range sites {
			ref := s.Refs[0]
			e := s.Ev()
			fail(&Violation{Key: ky.key(ref.Path, ref.Idx, c.Al), Pos: c.P.Pos(e.Pos), Func: FuncChain(ref.Path, ref.Idx),
				Msg: c.Render(c.A.DescribeEvent(e)) + " must not occur: " + g.Why, Path: c.PathTrace(ref.Path, ref.Idx)})
		}
		res.Sites = len(paths) // the rule ranges over every enumerated path
		res.Discharged = res.Violations == 0
		return res
	}
	if len(sites) < g.Min {
		fail(&Violation{Key: g.Pkg + "|" + g.Sel.Describe(), Pos: g.Pkg, Undecided: true,
			Msg: fmt.Sprintf("anchor not found: %d site(s) of %q in %s, at least %d expected — the construct this obligation speaks about has gone or changed shape", len(sites), g.Sel.Describe(), g.Pkg, g.Min)})
		return res
	}
	if g.Max > 0 && len(sites) > g.Max {
		fail(&Violation{Key: g.Pkg + "|" + g.Sel.Describe() + "|max", Pos: g.Pkg,
			Msg: fmt.Sprintf("%d site(s) of %q in %s, at most %d allowed", len(sites), g.Sel.Describe(), g.Pkg, g.Max)})
	}
	var ky keyer
	for _, s := range sites {
		key := ky.key(s.Refs[0].Path, s.Refs[0].Idx, c.Al)
		e := s.Ev()
		if why, bad := c.A.Unsupported[e.Fn.Name()]; bad {
			fail(&Violation{Key: key, Pos: c.P.Pos(e.Pos), Func: e.Fn.Name(), Undecided: true, Msg: "function uses a construct the walker does not model: " + why})
			continue
		}
		okAll := true
		for _, ref := range s.Refs {
			res.Evaluations++
			conds := CondsBefore(ref.Path, ref.Idx)
			f := ResolvePseudos(clause, EventsBefore(ref.Path, ref.Idx), conds)
			ent := Entails(conds, f, c.P.Domain)
			if g.Forbid != "" {
				if ent {
					okAll = false
					fail(&Violation{Key: key, Pos: c.P.Pos(e.Pos), Func: FuncChain(ref.Path, ref.Idx),
						Msg:      c.Render(c.A.DescribeEvent(e)) + " is reached on a path whose condition entails the forbidden clause",
						Required: "NOT " + c.Render(FString2(clause)), Found: c.RenderConds(conds), Path: c.PathTrace(ref.Path, ref.Idx)})
					break
				}
				continue
			}
			if !ent {
				okAll = false
				fail(&Violation{Key: key, Pos: c.P.Pos(e.Pos), Func: FuncChain(ref.Path, ref.Idx),
					Msg:      c.Render(c.A.DescribeEvent(e)) + " is reachable on a path whose condition does not entail the required clause",
					Required: c.Render(FString2(clause)), Found: c.RenderConds(conds), Path: c.PathTrace(ref.Path, ref.Idx)})
				break
			}
		}
		if okAll && len(res.Samples) < 3 {
			ref := s.Refs[0]
			res.Samples = append(res.Samples, fmt.Sprintf("%s %s in %s under: %s", c.P.Pos(e.Pos), c.Render(c.A.DescribeEvent(e)),
				FuncChain(ref.Path, ref.Idx), c.RenderConds(CondsBefore(ref.Path, ref.Idx))))
		}
	}
	res.Discharged = res.Violations == 0
	return res
}

// FString2 renders a formula (pseudo literals included).
func FString2(f Formula) string { return f.fstr() }

// Custom registers the result of a hand-written obligation.
func (c *Ctx) Custom(id, rule, clause, why string) *Obl {
	res := &OblResult{ID: id, Rule: rule, Clause: clause, Why: why}
	c.R.Add(res)
	return &Obl{c: c, Res: res}
}

// Obl is a handle on a custom obligation.
type Obl struct {
	c   *Ctx
	Res *OblResult
}

// Eval counts evaluations.
func (o *Obl) Eval(n int) { o.Res.Evaluations += n }

// Site counts a site.
func (o *Obl) Site(sample string) {
	o.Res.Sites++
	if len(o.Res.Samples) < 3 && sample != "" {
		o.Res.Samples = append(o.Res.Samples, sample)
	}
}

// Fail records a violation of this obligation.
func (o *Obl) Fail(v *Violation) {
	v.Obligation = o.Res.ID
	v.Rule = o.Res.Rule
	o.Res.Violations++
	o.c.R.Violate(v)
}

// Undecided records an undecided obligation.
func (o *Obl) Undecided(key, msg string) {
	o.Fail(&Violation{Key: key, Msg: msg, Undecided: true})
}

// Done closes the obligation; min is the minimum number of sites that must have been seen.
func (o *Obl) Done(min int) {
	if o.Res.Sites < min {
		o.Fail(&Violation{Key: o.Res.ID + "|anchor", Undecided: true,
			Msg: fmt.Sprintf("anchor not found: %d site(s), at least %d expected (%s)", o.Res.Sites, min, o.Res.Clause)})
	}
	o.Res.Discharged = o.Res.Violations == 0
}

// ---------------------------------------------------------------------------------------------
// K-gate: all-elements loop gate

// Gate is the all-proposals gate obligation: the site is reached only through a boolean flag that
// is initialised true, cleared only inside one range loop over Range, and every loop-body path
// that neither clears the flag nor leaves the function entails Clause.
type Gate struct {
	ID     string
	Pkg    string
	Sel    Sel
	Range  string // canonical range expression (aliases allowed)
	Clause string // must hold on every non-clearing fall-through path of the body
	Min    int
	Why    string
}

// Gate evaluates a K-gate obligation.
func (c *Ctx) Gate(g Gate) *OblResult {
	res := &OblResult{ID: g.ID, Rule: "K-enum(gate)", Why: g.Why,
		Clause: g.Sel.Describe() + "  ⇐  ∀ elem of " + g.Range + ": " + g.Clause}
	c.R.Add(res)
	fail := func(v *Violation) {
		v.Obligation = g.ID
		v.Rule = res.Rule
		res.Violations++
		c.R.Violate(v)
	}
	paths, err := c.A.Paths(g.Pkg)
	if err != nil {
		fail(&Violation{Key: g.Pkg, Msg: err.Error(), Undecided: true})
		return res
	}
	clause, err := ParseClause(g.Clause, c.Al, c.P)
	if err != nil {
		fail(&Violation{Key: g.ID, Msg: "bad clause: " + err.Error(), Undecided: true})
		return res
	}
	rng := c.Al.Expand(g.Range)
	sites := FindSites(paths, c.Match(g.Sel))
	res.Sites = len(sites)
	if len(sites) < g.Min {
		fail(&Violation{Key: g.Pkg + "|" + g.Sel.Describe(), Pos: g.Pkg, Undecided: true,
			Msg: fmt.Sprintf("anchor not found: %d site(s) of %q in %s, at least %d expected", len(sites), g.Sel.Describe(), g.Pkg, g.Min)})
		return res
	}
	var ky keyer
	for _, s := range sites {
		key := ky.key(s.Refs[0].Path, s.Refs[0].Idx, c.Al)
		e := s.Ev()
		pos := c.P.Pos(e.Pos)
		// 1. on every path the site is control dependent on a positive test of one local bool flag
		var flag types.Object
		var flagLoop *ast.RangeStmt
		bad := false
		for _, ref := range s.Refs {
			res.Evaluations++
			f, loop, why := c.gateFlag(ref, rng)
			if f == nil {
				fail(&Violation{Key: key, Pos: pos, Func: FuncChain(ref.Path, ref.Idx),
					Msg: c.Render(c.A.DescribeEvent(e)) + ": " + why, Required: res.Clause, Found: c.RenderConds(CondsBefore(ref.Path, ref.Idx)), Path: c.PathTrace(ref.Path, ref.Idx)})
				bad = true
				break
			}
			if flag == nil {
				flag, flagLoop = f, loop
			} else if flag != f || flagLoop != loop {
				fail(&Violation{Key: key, Pos: pos, Func: FuncChain(ref.Path, ref.Idx), Undecided: true, Msg: "different gate flags on different paths"})
				bad = true
				break
			}
		}
		if bad {
			continue
		}
		// 2. who assigns the flag: one initialisation to true before the loop, only "false" inside it
		fn := e.Fn
		info := fn.Pkg.TypesInfo
		okAssign := true
		ast.Inspect(fn.Decl.Body, func(n ast.Node) bool {
			as, ok := n.(*ast.AssignStmt)
			if !ok {
				return true
			}
			for i, l := range as.Lhs {
				id, ok := l.(*ast.Ident)
				if !ok {
					continue
				}
				obj := info.Defs[id]
				if obj == nil {
					obj = info.Uses[id]
				}
				if obj != flag {
					continue
				}
				val := ""
				if i < len(as.Rhs) {
					val = types.ExprString(as.Rhs[i])
				}
				inLoop := as.Pos() >= flagLoop.Body.Pos() && as.End() <= flagLoop.Body.End()
				switch {
				case !inLoop && val == "true" && as.Pos() < flagLoop.Pos():
				case inLoop && val == "false":
				default:
					okAssign = false
					fail(&Violation{Key: key + "|flag", Pos: c.P.Pos(as.Pos()), Func: fn.Name(),
						Msg: fmt.Sprintf("gate flag %s is assigned %q here; only 'true' before the loop and 'false' inside it keep the gate meaningful", flag.Name(), val)})
				}
			}
			return true
		})
		if !okAssign {
			continue
		}
		// 3. every body path that falls through without clearing the flag entails the clause;
		//    a break leaves the loop early and is treated as a fall-through
		nBody := 0
		for _, p := range paths {
			for i := range p.Events {
				le := &p.Events[i]
				if le.Kind != EvLoopEnter || le.Node != ast.Node(flagLoop) {
					continue
				}
				// find the matching exit
				depth := 0
				exit := -1
				cleared := false
				for j := i + 1; j < len(p.Events); j++ {
					ej := &p.Events[j]
					if ej.Kind == EvLoopEnter {
						depth++
					}
					if ej.Kind == EvLoopExit {
						if depth == 0 {
							exit = j
							break
						}
						depth--
					}
					if ej.Kind == EvWrite && ej.Local == flag && ej.RHS == "false" {
						cleared = true
					}
				}
				if exit < 0 || cleared || exit == i+1 {
					continue // left the function inside the loop, cleared the flag, or zero iterations
				}
				nBody++
				res.Evaluations++
				// conditions assumed inside the body on this path
				var conds []Lit
				for j := 0; j < exit; j++ {
					ej := &p.Events[j]
					if ej.Kind == EvCond && (j < i && loopPrefix(ej.Loops, le.Loops) || j > i && ej.Loops == le.LoopID) {
						conds = append(conds, ej.Lit)
					}
				}
				f := ResolvePseudos(clause, nil, conds)
				if !Entails(conds, f, c.P.Domain) {
					fail(&Violation{Key: key + "|body", Pos: c.P.Pos(flagLoop.Pos()), Func: FuncChain(p, i),
						Msg:      fmt.Sprintf("an iteration of the gate loop can finish without clearing %s although the element is not in the required state", flag.Name()),
						Required: c.Render(FString2(clause)), Found: c.RenderConds(conds), Path: c.PathTrace(p, exit)})
					i = len(p.Events)
					break
				}
			}
			if res.Violations > 0 {
				break
			}
		}
		if nBody == 0 {
			fail(&Violation{Key: key + "|body", Pos: pos, Func: fn.Name(), Undecided: true, Msg: "no fall-through path of the gate loop body was found"})
		}
		if res.Violations == 0 && len(res.Samples) < 2 {
			res.Samples = append(res.Samples, fmt.Sprintf("%s %s gated by flag %q over %s: %d non-clearing body paths all entail the clause",
				pos, c.Render(c.A.DescribeEvent(e)), flag.Name(), c.Render(rng), nBody))
		}
	}
	res.Discharged = res.Violations == 0
	return res
}

// gateFlag finds, on the path before the site, the positive test of a local boolean variable that
// was havocked by a range loop over rng closed before the site.
func (c *Ctx) gateFlag(ref SiteRef, rng string) (types.Object, *ast.RangeStmt, string) {
	p := ref.Path
	site := &p.Events[ref.Idx]
	// loops over rng closed before the site, in the same function frame
	for i := ref.Idx - 1; i >= 0; i-- {
		e := &p.Events[i]
		if e.Kind != EvCond || !loopPrefix(e.Loops, site.Loops) || e.Stack != site.Stack {
			continue
		}
		id, ok := ast.Unparen(e.CondExpr).(*ast.Ident)
		if !ok || e.Lit.Mask != mEQ || e.Lit.R != "true" {
			continue
		}
		obj := site.Fn.Pkg.TypesInfo.Uses[id]
		if obj == nil || !isBoolType(obj.Type()) {
			continue
		}
		// find the loop that assigns it
		for j := i - 1; j >= 0; j-- {
			le := &p.Events[j]
			if le.Kind != EvLoopEnter || le.Stack != site.Stack {
				continue
			}
			rs, ok := le.Node.(*ast.RangeStmt)
			if !ok {
				continue
			}
			assigned := false
			ast.Inspect(rs.Body, func(n ast.Node) bool {
				if as, ok := n.(*ast.AssignStmt); ok {
					for _, l := range as.Lhs {
						if lid, ok := l.(*ast.Ident); ok && site.Fn.Pkg.TypesInfo.Uses[lid] == obj {
							assigned = true
						}
					}
				}
				return true
			})
			if !assigned {
				continue
			}
			if le.Range != rng {
				return nil, nil, fmt.Sprintf("the gate flag %s is computed by a loop over %s, not over %s", obj.Name(), c.Render(le.Range), c.Render(rng))
			}
			return obj, rs, ""
		}
	}
	return nil, nil, "not control dependent on an all-elements flag computed by a loop over " + c.Render(rng)
}

// SortedKeys returns the sorted keys of a string-keyed map.
func SortedKeys[V any](m map[string]V) []string {
	out := make([]string, 0, len(m))
	for k := range m {
		out = append(out, k)
	}
	sort.Strings(out)
	return out
}
