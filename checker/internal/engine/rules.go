package engine

import (
	"fmt"
	"go/ast"
	"go/token"
	"go/types"
	"sort"
	"strings"
)

// Ctx is what a property's obligation code works with.
type Ctx struct {
	A  *Analysis
	P  *Prog
	R  *Report
	Al *Aliases
}

// Sel selects path events.
type Sel struct {
	Call     string // callee short name (exact)
	CallAny  []string
	Field    string // written field id ("config/v2.ProposalApplyPhase.State")
	RHS      string // canonical right-hand side (aliases allowed); "" = any
	RHSIn    []string
	NotRHS   string
	Lit      bool // also match composite-literal key writes
	OnlyLit  bool
	Deferred bool // include deferred executions of calls
	Filter   func(p *Path, i int) bool
	Name     string // description of a Filter-only selector
}

// Describe renders the selector.
func (s Sel) Describe() string {
	switch {
	case s.Name != "":
		return s.Name
	case s.Call != "":
		return "call " + s.Call
	case len(s.CallAny) > 0:
		return "call " + strings.Join(s.CallAny, "|")
	case s.Field != "":
		d := "write " + s.Field
		if s.RHS != "" {
			d += " := " + s.RHS
		}
		if len(s.RHSIn) > 0 {
			d += " := {" + strings.Join(s.RHSIn, ",") + "}"
		}
		if s.NotRHS != "" {
			d += " := anything but " + s.NotRHS
		}
		return d
	}
	return "custom"
}

// Match builds the event matcher.
func (c *Ctx) Match(s Sel) func(p *Path, i int) bool {
	rhs := s.RHS
	notRHS := s.NotRHS
	var rhsIn []string
	if c.Al != nil {
		rhs = c.Al.Expand(rhs)
		notRHS = c.Al.Expand(notRHS)
		for _, x := range s.RHSIn {
			rhsIn = append(rhsIn, c.Al.Expand(x))
		}
	} else {
		rhsIn = s.RHSIn
	}
	return func(p *Path, i int) bool {
		e := &p.Events[i]
		ok := false
		switch {
		case s.Call != "" || len(s.CallAny) > 0:
			if e.Kind != EvCall || (e.Deferred && !s.Deferred) {
				return false
			}
			ok = e.CalleeName == s.Call
			for _, n := range s.CallAny {
				if e.CalleeName == n {
					ok = true
				}
			}
		case s.Field != "":
			if e.Kind != EvWrite || e.Field != s.Field {
				return false
			}
			if e.Op == "lit" && !s.Lit && !s.OnlyLit {
				return false
			}
			if s.OnlyLit && e.Op != "lit" {
				return false
			}
			ok = true
			if rhs != "" && e.RHS != rhs {
				ok = false
			}
			if len(rhsIn) > 0 {
				ok = false
				for _, x := range rhsIn {
					if e.RHS == x {
						ok = true
					}
				}
			}
			if notRHS != "" && e.RHS == notRHS {
				ok = false
			}
		default:
			ok = s.Filter != nil
		}
		if ok && s.Filter != nil {
			ok = s.Filter(p, i)
		}
		return ok
	}
}

// Guard is a K-guard obligation: every selected site must be reached only under Require.
type Guard struct {
	ID      string
	Pkg     string
	Sel     Sel
	Require string // clause that the path condition must entail
	Forbid  string // clause that the path condition must NOT entail (negative form)
	Min     int    // minimum number of distinct sites (anchor must exist)
	Max     int    // maximum number of distinct sites (0 = unlimited)
	None    bool   // expected-zero rule: every matching site is a violation
	Assume  string // invariant of stored records taken for granted (case split over its DNF); recorded in the evidence
	Why     string
	Rule    string
	// PathsOverride evaluates the obligation on this path set instead of the package's default enumeration.
	PathsOverride []*Path
}

// SiteKey builds the line-free construct key of a site.
func SiteKey(p *Path, idx int, desc string) string {
	return FuncChainNoPos(p, idx) + "|" + desc
}

// FuncChainNoPos is the chain of function names from the root to the event.
func FuncChainNoPos(p *Path, idx int) string {
	s := FuncChain(p, idx)
	return s
}

func eventDesc(e *Event) string {
	switch e.Kind {
	case EvCall, EvGo, EvDefer:
		if e.CalleeName != "" {
			return "call " + e.CalleeName
		}
		return "call (dynamic)"
	case EvWrite:
		f := e.Field
		if f == "" {
			f = e.LHS
		}
		return "write " + f + " := " + e.RHS
	case EvReturn:
		return "return"
	case EvSend:
		return "send " + e.Chan
	}
	return e.Kind.String()
}

// keyer hands out construct keys with ordinals for repeated descriptors.
type keyer struct{ seen map[string]int }

func (k *keyer) key(p *Path, idx int, al *Aliases) string {
	if k.seen == nil {
		k.seen = map[string]int{}
	}
	d := eventDesc(&p.Events[idx])
	if al != nil {
		d = al.Render(d)
	}
	base := SiteKey(p, idx, d)
	k.seen[base]++
	if n := k.seen[base]; n > 1 {
		return fmt.Sprintf("%s#%d", base, n)
	}
	return base
}

// RenderConds renders path literals with aliases.
func (c *Ctx) RenderConds(ls []Lit) string {
	var s []string
	for _, l := range ls {
		s = append(s, c.Render(l.String()))
	}
	return strings.Join(s, " ∧ ")
}

// Render abbreviates a canonical string.
func (c *Ctx) Render(s string) string {
	if c.Al != nil {
		return c.Al.Render(s)
	}
	return c.P.Render(s, nil)
}

// PathTrace renders the decisive events of a path up to idx (conditions, calls to the module and
// to stores, field writes).
func (c *Ctx) PathTrace(p *Path, idx int) []string {
	var out []string
	for i := 0; i <= idx && i < len(p.Events); i++ {
		e := &p.Events[i]
		switch e.Kind {
		case EvCond, EvReturn, EvLoopEnter, EvLoopExit, EvSend, EvRecv, EvGo:
		case EvWrite:
			if e.Local != nil {
				continue
			}
		case EvCall:
			if strings.HasPrefix(e.CalleeName, "logging.") || isPureBuiltin(e.CalleeName) || e.Inlined {
				continue
			}
		default:
			continue
		}
		out = append(out, c.P.Pos(e.Pos)+" "+c.Render(c.A.DescribeEvent(e)))
	}
	return out
}

// Guard evaluates a K-guard obligation.
func (c *Ctx) Guard(g Guard) *OblResult {
	rule := g.Rule
	if rule == "" {
		rule = "K-guard"
	}
	res := &OblResult{ID: g.ID, Rule: rule, Clause: g.Sel.Describe() + "  ⇒  " + g.Require, Why: g.Why}
	if g.Forbid != "" {
		res.Clause = g.Sel.Describe() + "  ⇏  " + g.Forbid
	}
	c.R.Add(res)
	fail := func(v *Violation) {
		v.Obligation = g.ID
		v.Rule = rule
		res.Violations++
		c.R.Violate(v)
	}
	var paths []*Path
	var err error
	if g.PathsOverride != nil {
		paths = g.PathsOverride
	} else {
		paths, err = c.A.Paths(g.Pkg)
	}
	if err != nil {
		fail(&Violation{Key: g.Pkg, Msg: err.Error(), Undecided: true})
		return res
	}
	var clause Formula
	src := g.Require
	if g.Forbid != "" {
		src = g.Forbid
	}
	clause, err = ParseClause(src, c.Al, c.P)
	if err != nil {
		fail(&Violation{Key: g.ID, Msg: "bad clause: " + err.Error(), Undecided: true})
		return res
	}
	if strings.Contains(FString2(clause), "@UNDEFINED") {
		fail(&Violation{Key: g.ID, Msg: "clause uses an undefined alias: " + FString2(clause), Undecided: true})
		return res
	}
	var assume [][]Lit
	if g.Assume != "" {
		af, err := ParseClause(g.Assume, c.Al, c.P)
		if err != nil {
			fail(&Violation{Key: g.ID, Msg: "bad assumption: " + err.Error(), Undecided: true})
			return res
		}
		assume, _ = DNF(af, false)
		res.Clause += "   [assuming " + g.Assume + "]"
	}
	feasible := func(conds []Lit) bool {
		if assume == nil {
			return true
		}
		for _, d := range assume {
			if !Unsat(append(append([]Lit(nil), conds...), d...), c.P.Domain) {
				return true
			}
		}
		return false
	}
	sites := FindSites(paths, c.Match(g.Sel))
	res.Sites = len(sites)
	if g.None {
		res.Clause = "no " + g.Sel.Describe()
		res.Evaluations += len(paths)
		var ky keyer
		for _, s := range sites {
			ref := s.Refs[0]
			if assume != nil {
				any := false
				for _, r := range s.Refs {
					if feasible(CondsBefore(r.Path, r.Idx)) {
						any, ref = true, r
						break
					}
				}
				if !any {
					continue
				}
			}
			e := s.Ev()
			fail(&Violation{Key: ky.key(ref.Path, ref.Idx, c.Al), Pos: c.P.Pos(e.Pos), Func: FuncChain(ref.Path, ref.Idx),
				Msg: c.Render(c.A.DescribeEvent(e)) + " must not occur: " + g.Why, Path: c.PathTrace(ref.Path, ref.Idx)})
		}
		res.Sites = len(paths) // the rule ranges over every enumerated path
		res.Discharged = res.Violations == 0
		return res
	}
	if len(sites) < g.Min {
		fail(&Violation{Key: g.Pkg + "|" + g.Sel.Describe(), Pos: g.Pkg, Undecided: true,
			Msg: fmt.Sprintf("anchor not found: %d site(s) of %q in %s, at least %d expected — the construct this obligation speaks about has gone or changed shape", len(sites), g.Sel.Describe(), g.Pkg, g.Min)})
		return res
	}
	if g.Max > 0 && len(sites) > g.Max {
		fail(&Violation{Key: g.Pkg + "|" + g.Sel.Describe() + "|max", Pos: g.Pkg,
			Msg: fmt.Sprintf("%d site(s) of %q in %s, at most %d allowed", len(sites), g.Sel.Describe(), g.Pkg, g.Max)})
	}
	var ky keyer
	for _, s := range sites {
		key := ky.key(s.Refs[0].Path, s.Refs[0].Idx, c.Al)
		e := s.Ev()
		if why, bad := c.A.Unsupported[e.Fn.Name()]; bad {
			fail(&Violation{Key: key, Pos: c.P.Pos(e.Pos), Func: e.Fn.Name(), Undecided: true, Msg: "function uses a construct the walker does not model: " + why})
			continue
		}
		okAll := true
		for _, ref := range s.Refs {
			res.Evaluations++
			conds := CondsBefore(ref.Path, ref.Idx)
			f := ResolvePseudos(clause, EventsBefore(ref.Path, ref.Idx), conds)
			ent := true
			if assume == nil {
				ent = Entails(conds, f, c.P.Domain)
			} else {
				for _, d := range assume {
					if !Entails(append(append([]Lit(nil), conds...), d...), f, c.P.Domain) {
						ent = false
					}
				}
			}
			if g.Forbid != "" {
				if ent {
					okAll = false
					fail(&Violation{Key: key, Pos: c.P.Pos(e.Pos), Func: FuncChain(ref.Path, ref.Idx),
						Msg:      c.Render(c.A.DescribeEvent(e)) + " is reached on a path whose condition entails the forbidden clause",
						Required: "NOT " + c.Render(FString2(clause)), Found: c.RenderConds(conds), Path: c.PathTrace(ref.Path, ref.Idx)})
					break
				}
				continue
			}
			if !ent {
				okAll = false
				fail(&Violation{Key: key, Pos: c.P.Pos(e.Pos), Func: FuncChain(ref.Path, ref.Idx),
					Msg:      c.Render(c.A.DescribeEvent(e)) + " is reachable on a path whose condition does not entail the required clause",
					Required: c.Render(FString2(clause)), Found: c.RenderConds(conds), Path: c.PathTrace(ref.Path, ref.Idx)})
				break
			}
		}
		if okAll && len(res.Samples) < 3 {
			ref := s.Refs[0]
			res.Samples = append(res.Samples, fmt.Sprintf("%s %s in %s under: %s", c.P.Pos(e.Pos), c.Render(c.A.DescribeEvent(e)),
				FuncChain(ref.Path, ref.Idx), c.RenderConds(CondsBefore(ref.Path, ref.Idx))))
		}
	}
	res.Discharged = res.Violations == 0
	return res
}

// FString2 renders a formula (pseudo literals included).
func FString2(f Formula) string { return f.fstr() }

// Custom registers the result of a hand-written obligation.
func (c *Ctx) Custom(id, rule, clause, why string) *Obl {
	res := &OblResult{ID: id, Rule: rule, Clause: clause, Why: why}
	c.R.Add(res)
	return &Obl{c: c, Res: res}
}

// Obl is a handle on a custom obligation.
type Obl struct {
	c   *Ctx
	Res *OblResult
}

// Eval counts evaluations.
func (o *Obl) Eval(n int) { o.Res.Evaluations += n }

// Site counts a site.
func (o *Obl) Site(sample string) {
	o.Res.Sites++
	if len(o.Res.Samples) < 3 && sample != "" {
		o.Res.Samples = append(o.Res.Samples, sample)
	}
}

// Fail records a violation of this obligation.
func (o *Obl) Fail(v *Violation) {
	v.Obligation = o.Res.ID
	v.Rule = o.Res.Rule
	o.Res.Violations++
	o.c.R.Violate(v)
}

// Undecided records an undecided obligation.
func (o *Obl) Undecided(key, msg string) {
	o.Fail(&Violation{Key: key, Msg: msg, Undecided: true})
}

// Done closes the obligation; min is the minimum number of sites that must have been seen.
func (o *Obl) Done(min int) {
	if o.Res.Sites < min {
		o.Fail(&Violation{Key: o.Res.ID + "|anchor", Undecided: true,
			Msg: fmt.Sprintf("anchor not found: %d site(s), at least %d expected (%s)", o.Res.Sites, min, o.Res.Clause)})
	}
	o.Res.Discharged = o.Res.Violations == 0
}

// ---------------------------------------------------------------------------------------------
// K-gate: all-elements loop gate

// Gate is the all-proposals gate obligation: the site is reached only through a boolean flag that
// is initialised true, cleared only inside one range loop over Range, and every loop-body path
// that neither clears the flag nor leaves the function entails Clause.
type Gate struct {
	ID     string
	Pkg    string
	Sel    Sel
	Range  string // canonical range expression (aliases allowed)
	Clause string // must hold on every non-clearing fall-through path of the body
	Min    int
	Why    string
}

// Gate evaluates a K-gate obligation.
func (c *Ctx) Gate(g Gate) *OblResult {
	res := &OblResult{ID: g.ID, Rule: "K-enum(gate)", Why: g.Why,
		Clause: g.Sel.Describe() + "  ⇐  ∀ elem of " + g.Range + ": " + g.Clause}
	c.R.Add(res)
	fail := func(v *Violation) {
		v.Obligation = g.ID
		v.Rule = res.Rule
		res.Violations++
		c.R.Violate(v)
	}
	paths, err := c.A.Paths(g.Pkg)
	if err != nil {
		fail(&Violation{Key: g.Pkg, Msg: err.Error(), Undecided: true})
		return res
	}
	clause, err := ParseClause(g.Clause, c.Al, c.P)
	if err != nil {
		fail(&Violation{Key: g.ID, Msg: "bad clause: " + err.Error(), Undecided: true})
		return res
	}
	rng := c.Al.Expand(g.Range)
	sites := FindSites(paths, c.Match(g.Sel))
	res.Sites = len(sites)
	if len(sites) < g.Min {
		fail(&Violation{Key: g.Pkg + "|" + g.Sel.Describe(), Pos: g.Pkg, Undecided: true,
			Msg: fmt.Sprintf("anchor not found: %d site(s) of %q in %s, at least %d expected", len(sites), g.Sel.Describe(), g.Pkg, g.Min)})
		return res
	}
	var ky keyer
	for _, s := range sites {
		key := ky.key(s.Refs[0].Path, s.Refs[0].Idx, c.Al)
		e := s.Ev()
		pos := c.P.Pos(e.Pos)
		// 1. on every path the site is control dependent on a positive test of one local bool flag
		var flag types.Object
		var flagLoop *ast.RangeStmt
		bad := false
		for _, ref := range s.Refs {
			res.Evaluations++
			f, loop, why := c.gateFlag(ref, rng)
			if f == nil {
				fail(&Violation{Key: key, Pos: pos, Func: FuncChain(ref.Path, ref.Idx),
					Msg: c.Render(c.A.DescribeEvent(e)) + ": " + why, Required: res.Clause, Found: c.RenderConds(CondsBefore(ref.Path, ref.Idx)), Path: c.PathTrace(ref.Path, ref.Idx)})
				bad = true
				break
			}
			if flag == nil {
				flag, flagLoop = f, loop
			} else if flag != f || flagLoop != loop {
				fail(&Violation{Key: key, Pos: pos, Func: FuncChain(ref.Path, ref.Idx), Undecided: true, Msg: "different gate flags on different paths"})
				bad = true
				break
			}
		}
		if bad {
			continue
		}
		// 2. who assigns the flag: one initialisation to true before the loop, only "false" inside it
		fn := e.Fn
		info := fn.Pkg.TypesInfo
		okAssign := true
		ast.Inspect(fn.Decl.Body, func(n ast.Node) bool {
			as, ok := n.(*ast.AssignStmt)
			if !ok {
				return true
			}
			for i, l := range as.Lhs {
				id, ok := l.(*ast.Ident)
				if !ok {
					continue
				}
				obj := info.Defs[id]
				if obj == nil {
					obj = info.Uses[id]
				}
				if obj != flag {
					continue
				}
				val := ""
				if i < len(as.Rhs) {
					val = types.ExprString(as.Rhs[i])
				}
				inLoop := as.Pos() >= flagLoop.Body.Pos() && as.End() <= flagLoop.Body.End()
				switch {
				case !inLoop && val == "true" && as.Pos() < flagLoop.Pos():
				case inLoop && val == "false":
				default:
					okAssign = false
					fail(&Violation{Key: key + "|flag", Pos: c.P.Pos(as.Pos()), Func: fn.Name(),
						Msg: fmt.Sprintf("gate flag %s is assigned %q here; only 'true' before the loop and 'false' inside it keep the gate meaningful", flag.Name(), val)})
				}
			}
			return true
		})
		if !okAssign {
			continue
		}
		// 3. every body path that falls through without clearing the flag entails the clause;
		//    a break leaves the loop early and is treated as a fall-through
		nBody := 0
		for _, p := range paths {
			for i := range p.Events {
				le := &p.Events[i]
				if le.Kind != EvLoopEnter || le.Node != ast.Node(flagLoop) {
					continue
				}
				// find the matching exit
				depth := 0
				exit := -1
				cleared := false
				for j := i + 1; j < len(p.Events); j++ {
					ej := &p.Events[j]
					if ej.Kind == EvLoopEnter {
						depth++
					}
					if ej.Kind == EvLoopExit {
						if depth == 0 {
							exit = j
							break
						}
						depth--
					}
					if ej.Kind == EvWrite && ej.Local == flag && ej.RHS == "false" {
						cleared = true
					}
				}
				if exit < 0 || cleared || exit == i+1 {
					continue // left the function inside the loop, cleared the flag, or zero iterations
				}
				nBody++
				res.Evaluations++
				// conditions assumed inside the body on this path
				var conds []Lit
				for j := 0; j < exit; j++ {
					ej := &p.Events[j]
					if ej.Kind == EvCond && (j < i && loopPrefix(ej.Loops, le.Loops) || j > i && ej.Loops == le.LoopID) {
						conds = append(conds, ej.Lit)
					}
				}
				f := ResolvePseudos(clause, nil, conds)
				if !Entails(conds, f, c.P.Domain) {
					fail(&Violation{Key: key + "|body", Pos: c.P.Pos(flagLoop.Pos()), Func: FuncChain(p, i),
						Msg:      fmt.Sprintf("an iteration of the gate loop can finish without clearing %s although the element is not in the required state", flag.Name()),
						Required: c.Render(FString2(clause)), Found: c.RenderConds(conds), Path: c.PathTrace(p, exit)})
					i = len(p.Events)
					break
				}
			}
			if res.Violations > 0 {
				break
			}
		}
		if nBody == 0 {
			fail(&Violation{Key: key + "|body", Pos: pos, Func: fn.Name(), Undecided: true, Msg: "no fall-through path of the gate loop body was found"})
		}
		if res.Violations == 0 && len(res.Samples) < 2 {
			res.Samples = append(res.Samples, fmt.Sprintf("%s %s gated by flag %q over %s: %d non-clearing body paths all entail the clause",
				pos, c.Render(c.A.DescribeEvent(e)), flag.Name(), c.Render(rng), nBody))
		}
	}
	res.Discharged = res.Violations == 0
	return res
}

// gateFlag finds, on the path before the site, the positive test of a local boolean variable that
// was havocked by a range loop over rng closed before the site.
func (c *Ctx) gateFlag(ref SiteRef, rng string) (types.Object, *ast.RangeStmt, string) {
	p := ref.Path
	site := &p.Events[ref.Idx]
	// loops over rng closed before the site, in the same function frame
	for i := ref.Idx - 1; i >= 0; i-- {
		e := &p.Events[i]
		if e.Kind != EvCond || !loopPrefix(e.Loops, site.Loops) || e.Stack != site.Stack {
			continue
		}
		// `if flag { site }` and `if !flag { return }; site` put the same literal on the path: flag == true
		ce := ast.Unparen(e.CondExpr)
		if u, isNot := ce.(*ast.UnaryExpr); isNot && u.Op == token.NOT {
			ce = ast.Unparen(u.X)
		}
		id, ok := ce.(*ast.Ident)
		if !ok || e.Lit.Mask != mEQ || e.Lit.R != "true" {
			continue
		}
		obj := site.Fn.Pkg.TypesInfo.Uses[id]
		if obj == nil || !isBoolType(obj.Type()) {
			continue
		}
		// find the loop that assigns it
		for j := i - 1; j >= 0; j-- {
			le := &p.Events[j]
			if le.Kind != EvLoopEnter || le.Stack != site.Stack {
				continue
			}
			rs, ok := le.Node.(*ast.RangeStmt)
			if !ok {
				continue
			}
			assigned := false
			ast.Inspect(rs.Body, func(n ast.Node) bool {
				if as, ok := n.(*ast.AssignStmt); ok {
					for _, l := range as.Lhs {
						if lid, ok := l.(*ast.Ident); ok && site.Fn.Pkg.TypesInfo.Uses[lid] == obj {
							assigned = true
						}
					}
				}
				return true
			})
			if !assigned {
				continue
			}
			if le.Range != rng {
				return nil, nil, fmt.Sprintf("the gate flag %s is computed by a loop over %s, not over %s", obj.Name(), c.Render(le.Range), c.Render(rng))
			}
			return obj, rs, ""
		}
	}
	return nil, nil, "not control dependent on an all-elements flag computed by a loop over " + c.Render(rng)
}

// SortedKeys returns the sorted keys of a string-keyed map.
func SortedKeys[V any](m map[string]V) []string {
	out := make([]string, 0, len(m))
	for k := range m {
		out = append(out, k)
	}
	sort.Strings(out)
	return out
}

// ---------------------------------------------------------------------------------------------
// K-enum(outcome): what a class of complete paths must / must not do

// Outcome is an obligation over complete paths: every path whose final condition entails When
// must contain an event matching each Must selector and none matching a MustNot selector.
type Outcome struct {
	ID      string
	Pkg     string
	Root    string // restrict to roots whose name contains this ("" = all)
	When    string
	Must    []Sel
	MustNot []Sel
	Returns string // when non-empty: canonical text that the last result must (not) be: "err==nil", "err!=nil"
	Result0 string // when non-empty: required canonical first result (aliases allowed)
	Min     int    // minimum number of paths in the class
	Why     string
	After   *Sel // only events after the first event matching After count
	// Consistent selects the class by satisfiability instead of entailment: every path whose final
	// condition can hold together with When (the path does not rule When out). Use it when the code
	// is required to look at something it may not look at today. Only for clauses about values
	// that exist on every path (never about loop elements).
	Consistent bool
	// PathsOverride evaluates the obligation on this path set instead of the package's default enumeration.
	PathsOverride []*Path
}

// Outcome evaluates a K-enum(outcome) obligation.
func (c *Ctx) Outcome(g Outcome) *OblResult {
	desc := "paths with [" + g.When + "]"
	for _, s := range g.Must {
		desc += " must " + s.Describe() + ";"
	}
	for _, s := range g.MustNot {
		desc += " must not " + s.Describe() + ";"
	}
	if g.Returns != "" {
		desc += " return " + g.Returns
	}
	if g.Result0 != "" {
		desc += " return " + g.Result0
	}
	res := &OblResult{ID: g.ID, Rule: "K-enum(outcome)", Clause: desc, Why: g.Why}
	c.R.Add(res)
	fail := func(v *Violation) {
		v.Obligation = g.ID
		v.Rule = res.Rule
		res.Violations++
		c.R.Violate(v)
	}
	var paths []*Path
	var err error
	if g.PathsOverride != nil {
		paths = g.PathsOverride
	} else {
		paths, err = c.A.Paths(g.Pkg)
	}
	if err != nil {
		fail(&Violation{Key: g.Pkg, Msg: err.Error(), Undecided: true})
		return res
	}
	when, err := ParseClause(g.When, c.Al, c.P)
	if err != nil || strings.Contains(FString2(when), "@UNDEFINED") {
		fail(&Violation{Key: g.ID, Msg: "bad clause " + g.When, Undecided: true})
		return res
	}
	var must, mustNot []func(*Path, int) bool
	for _, s := range g.Must {
		must = append(must, c.Match(s))
	}
	for _, s := range g.MustNot {
		mustNot = append(mustNot, c.Match(s))
	}
	var after func(*Path, int) bool
	if g.After != nil {
		after = c.Match(*g.After)
	}
	reported := map[string]bool{}
	for _, p := range paths {
		if g.Root != "" && !strings.Contains(p.Root.Name(), g.Root) {
			continue
		}
		if len(p.Events) == 0 {
			continue
		}
		last := len(p.Events) - 1
		conds := CondsBefore(p, last)
		f := ResolvePseudos(ResolveHistory(when, p, last), EventsBefore(p, last), conds)
		if g.Consistent {
			ds, ok := DNF(f, false)
			sat := false
			for _, d := range ds {
				if !Unsat(append(append([]Lit(nil), conds...), d...), c.P.Domain) {
					sat = true
					break
				}
			}
			if !ok || !sat {
				continue
			}
		} else if !Entails(conds, f, c.P.Domain) {
			continue
		}
		start := 0
		if after != nil {
			start = -1
			for i := range p.Events {
				if after(p, i) {
					start = i + 1
					break
				}
			}
			if start < 0 {
				continue
			}
		}
		res.Sites++
		res.Evaluations++
		if len(res.Samples) < 2 {
			res.Samples = append(res.Samples, "path of "+p.Root.Name()+" ending "+c.P.Pos(p.Events[last].Pos)+" under: "+c.RenderConds(conds))
		}
		report := func(key, msg string, idx int) {
			if reported[key] {
				return
			}
			reported[key] = true
			fail(&Violation{Key: key, Pos: c.P.Pos(p.Events[idx].Pos), Func: FuncChain(p, idx), Msg: msg,
				Required: desc, Found: c.RenderConds(conds), Path: c.PathTrace(p, last)})
		}
		for mi, m := range must {
			found := false
			for i := start; i < len(p.Events); i++ {
				if m(p, i) {
					found = true
					break
				}
			}
			if !found {
				report(FuncChainNoPos(p, last)+"|missing "+c.Render(g.Must[mi].Describe()), "a path of this class does not perform: "+c.Render(g.Must[mi].Describe()), last)
			}
		}
		for mi, m := range mustNot {
			for i := start; i < len(p.Events); i++ {
				if m(p, i) {
					report(SiteKey(p, i, "forbidden "+c.Render(g.MustNot[mi].Describe())), "a path of this class performs the forbidden effect: "+c.Render(c.A.DescribeEvent(&p.Events[i])), i)
					break
				}
			}
		}
		if g.Result0 != "" {
			r := p.Events[last]
			want := c.Al.Expand(g.Result0)
			got := ""
			if len(r.Results) > 0 {
				got = r.Results[0]
			}
			if got != want {
				report(FuncChainNoPos(p, last)+"|result "+c.Render(want), "a path of this class returns "+c.Render(got)+" where "+c.Render(want)+" is required", last)
			}
		}
		if g.Returns != "" {
			r := p.Events[last]
			errv := ""
			if len(r.Results) > 0 {
				errv = r.Results[len(r.Results)-1]
			}
			isNil := errv == "nil"
			if (g.Returns == "err==nil" && !isNil) || (g.Returns == "err!=nil" && isNil) {
				report(FuncChainNoPos(p, last)+"|returns "+g.Returns, "a path of this class returns "+c.Render(errv)+" where "+g.Returns+" is required", last)
			}
		}
	}
	if res.Sites < g.Min {
		fail(&Violation{Key: g.ID + "|anchor", Pos: g.Pkg, Undecided: true,
			Msg: fmt.Sprintf("anchor not found: %d path(s) satisfy [%s], at least %d expected", res.Sites, g.When, g.Min)})
	}
	res.Discharged = res.Violations == 0
	return res
}

// ---------------------------------------------------------------------------------------------
// K-own: who writes a field, module wide (AST scan, composite literals included)

// FieldWrite is one syntactic write of a struct field.
type FieldWrite struct {
	Field string
	Pkg   string // package path relative to the module
	Func  string
	Pos   string
	RHS   string // source text of the right-hand side
	Op    string // "=", "++", "lit", ...
	Test  bool
}

// FieldWrites scans every function of the module for field writes.
func (p *Prog) FieldWrites() []FieldWrite {
	if p.fieldWrites != nil {
		return p.fieldWrites
	}
	var out []FieldWrite
	for _, pkg := range p.Pkgs {
		rel := strings.TrimPrefix(pkg.PkgPath, ModulePath+"/")
		info := pkg.TypesInfo
		for _, file := range pkg.Syntax {
			for _, d := range file.Decls {
				fd, ok := d.(*ast.FuncDecl)
				fname := "(package level)"
				var node ast.Node = d
				if ok {
					if fd.Body == nil {
						continue
					}
					if obj, _ := info.Defs[fd.Name].(*types.Func); obj != nil {
						fname = ShortFuncName(obj)
					}
					node = fd.Body
				}
				ast.Inspect(node, func(n ast.Node) bool {
					switch x := n.(type) {
					case *ast.AssignStmt:
						for i, l := range x.Lhs {
							if f := FieldID(info, l); f != "" {
								rhs := ""
								if len(x.Rhs) == len(x.Lhs) {
									rhs = types.ExprString(x.Rhs[i])
								} else if len(x.Rhs) == 1 {
									rhs = types.ExprString(x.Rhs[0])
								}
								out = append(out, FieldWrite{Field: f, Pkg: rel, Func: fname, Pos: p.Pos(l.Pos()), RHS: rhs, Op: x.Tok.String()})
							}
						}
					case *ast.IncDecStmt:
						if f := FieldID(info, x.X); f != "" {
							out = append(out, FieldWrite{Field: f, Pkg: rel, Func: fname, Pos: p.Pos(x.Pos()), Op: x.Tok.String()})
						}
					case *ast.CompositeLit:
						t := info.TypeOf(x)
						if t == nil {
							return true
						}
						st, ok := t.Underlying().(*types.Struct)
						if !ok {
							return true
						}
						owner := typeLabel(t)
						for i, el := range x.Elts {
							if kv, ok := el.(*ast.KeyValueExpr); ok {
								if id, ok := kv.Key.(*ast.Ident); ok {
									out = append(out, FieldWrite{Field: owner + "." + id.Name, Pkg: rel, Func: fname, Pos: p.Pos(kv.Pos()), RHS: types.ExprString(kv.Value), Op: "lit"})
								}
							} else if i < st.NumFields() {
								out = append(out, FieldWrite{Field: owner + "." + st.Field(i).Name(), Pkg: rel, Func: fname, Pos: p.Pos(el.Pos()), RHS: types.ExprString(el), Op: "lit"})
							}
						}
					case *ast.UnaryExpr:
						// &x.F hands out a mutable reference to the field
						if x.Op.String() == "&" {
							if f := FieldID(info, x.X); f != "" && !AddrOnlySelected(info, node, x) {
								out = append(out, FieldWrite{Field: f, Pkg: rel, Func: fname, Pos: p.Pos(x.Pos()), Op: "&"})
							}
						}
					}
					return true
				})
			}
		}
	}
	p.fieldWrites = out
	return out
}

// Own is a K-own obligation: Field may only be written in the listed packages (and, optionally,
// only with the listed operators).
type Own struct {
	ID      string
	Field   string
	Pkgs    []string // allowed package paths relative to the module
	Ops     []string // allowed operators ("" = any)
	SkipLit bool     // composite-literal keys do not count (fresh records)
	Min     int
	Why     string
}

// Own evaluates a K-own obligation.
func (c *Ctx) Own(g Own) *OblResult {
	res := &OblResult{ID: g.ID, Rule: "K-own", Why: g.Why,
		Clause: "field " + g.Field + " is written only in {" + strings.Join(g.Pkgs, ", ") + "}"}
	if len(g.Ops) > 0 {
		res.Clause += " with operators {" + strings.Join(g.Ops, ",") + "}"
	}
	c.R.Add(res)
	n := 0
	for _, w := range c.P.FieldWrites() {
		if w.Field != g.Field || (g.SkipLit && w.Op == "lit") {
			continue
		}
		if strings.HasPrefix(w.Pkg, "internal/") || strings.HasPrefix(w.Pkg, "test/") {
			continue
		}
		n++
		res.Evaluations++
		okPkg := false
		for _, p := range g.Pkgs {
			if w.Pkg == p {
				okPkg = true
			}
		}
		okOp := len(g.Ops) == 0
		for _, o := range g.Ops {
			if w.Op == o {
				okOp = true
			}
		}
		if len(res.Samples) < 3 {
			res.Samples = append(res.Samples, fmt.Sprintf("%s %s %s %s in %s", w.Pos, w.Field, w.Op, w.RHS, w.Func))
		}
		if !okPkg || !okOp {
			res.Violations++
			c.R.Violate(&Violation{Obligation: g.ID, Rule: "K-own", Key: w.Func + "|write " + g.Field + " " + w.Op, Pos: w.Pos, Func: w.Func,
				Msg: fmt.Sprintf("%s is written (%s %s) in %s, outside the owners %v: %s", g.Field, w.Op, w.RHS, w.Pkg, g.Pkgs, g.Why)})
		}
	}
	res.Sites = n
	if n < g.Min {
		res.Violations++
		c.R.Violate(&Violation{Obligation: g.ID, Rule: "K-own", Key: g.ID + "|anchor", Undecided: true,
			Msg: fmt.Sprintf("anchor not found: %d write(s) of %s, at least %d expected", n, g.Field, g.Min)})
	}
	res.Discharged = res.Violations == 0
	return res
}

// ---------------------------------------------------------------------------------------------
// who-may-call (AST level, resolved callees)

// CallSite is one syntactic call with a statically resolved callee (function, method or
// interface method).
type CallSite struct {
	Pkg    string // package path relative to the module
	Func   string // enclosing function (short name)
	Callee string // short name of the callee
	Pos    string
	Call   *ast.CallExpr
	Info   *types.Info
	Decl   *ast.FuncDecl
}

// CallSites lists every resolved call of the module.
func (p *Prog) CallSites() []CallSite {
	if p.callSites != nil {
		return p.callSites
	}
	var out []CallSite
	for _, pkg := range p.Pkgs {
		rel := strings.TrimPrefix(pkg.PkgPath, ModulePath+"/")
		info := pkg.TypesInfo
		for _, file := range pkg.Syntax {
			for _, d := range file.Decls {
				fd, ok := d.(*ast.FuncDecl)
				if !ok || fd.Body == nil {
					continue
				}
				fname := fd.Name.Name
				if obj, _ := info.Defs[fd.Name].(*types.Func); obj != nil {
					fname = ShortFuncName(obj)
				}
				ast.Inspect(fd.Body, func(n ast.Node) bool {
					call, ok := n.(*ast.CallExpr)
					if !ok {
						return true
					}
					var id *ast.Ident
					switch f := ast.Unparen(call.Fun).(type) {
					case *ast.Ident:
						id = f
					case *ast.SelectorExpr:
						id = f.Sel
					case *ast.IndexExpr:
						switch g := ast.Unparen(f.X).(type) {
						case *ast.Ident:
							id = g
						case *ast.SelectorExpr:
							id = g.Sel
						}
					}
					if id == nil {
						return true
					}
					name := ""
					switch o := info.Uses[id].(type) {
					case *types.Func:
						name = ShortFuncName(o)
					case *types.Builtin:
						name = o.Name()
					}
					if name != "" {
						out = append(out, CallSite{Pkg: rel, Func: fname, Callee: name, Pos: p.Pos(call.Pos()), Call: call, Info: info, Decl: fd})
					}
					return true
				})
			}
		}
	}
	p.callSites = out
	return out
}

// MayCall is a who-may-call obligation: Callees may be called only from the listed packages.
type MayCall struct {
	ID      string
	Callees []string
	Pkgs    []string // allowed callers (package paths relative to the module)
	Min     int
	Why     string
}

// MayCall evaluates a who-may-call obligation.
func (c *Ctx) MayCall(g MayCall) *OblResult {
	res := &OblResult{ID: g.ID, Rule: "K-own(callers)", Why: g.Why,
		Clause: strings.Join(g.Callees, "|") + " is called only from {" + strings.Join(g.Pkgs, ", ") + "}"}
	c.R.Add(res)
	for _, cs := range c.P.CallSites() {
		match := false
		for _, n := range g.Callees {
			if cs.Callee == n {
				match = true
			}
		}
		if !match || strings.HasPrefix(cs.Pkg, "internal/") {
			continue
		}
		res.Sites++
		res.Evaluations++
		if len(res.Samples) < 3 {
			res.Samples = append(res.Samples, cs.Pos+" "+cs.Callee+" called from "+cs.Func)
		}
		ok := false
		for _, p := range g.Pkgs {
			if cs.Pkg == p {
				ok = true
			}
		}
		if !ok {
			res.Violations++
			c.R.Violate(&Violation{Obligation: g.ID, Rule: res.Rule, Key: cs.Func + "|call " + cs.Callee, Pos: cs.Pos, Func: cs.Func,
				Msg: cs.Callee + " is called from " + cs.Pkg + ", outside " + fmt.Sprint(g.Pkgs) + ": " + g.Why})
		}
	}
	if res.Sites < g.Min {
		res.Violations++
		c.R.Violate(&Violation{Obligation: g.ID, Rule: res.Rule, Key: g.ID + "|anchor", Undecided: true,
			Msg: fmt.Sprintf("anchor not found: %d call(s) of %v, at least %d expected", res.Sites, g.Callees, g.Min)})
	}
	res.Discharged = res.Violations == 0
	return res
}

// Reach returns the module functions reachable from root (short name) through statically
// resolved calls (AST level; calls through interfaces and function values are leaves), and all
// call sites inside them.
func (p *Prog) Reach(root string) (map[string]bool, []CallSite) {
	byFunc := map[string][]CallSite{}
	for _, cs := range p.CallSites() {
		byFunc[cs.Func] = append(byFunc[cs.Func], cs)
	}
	hasBody := map[string]bool{}
	for _, fi := range p.Funcs {
		hasBody[fi.Name()] = true
	}
	seen := map[string]bool{root: true}
	work := []string{root}
	var sites []CallSite
	for len(work) > 0 {
		f := work[len(work)-1]
		work = work[:len(work)-1]
		for _, cs := range byFunc[f] {
			sites = append(sites, cs)
			if hasBody[cs.Callee] && !seen[cs.Callee] {
				seen[cs.Callee] = true
				work = append(work, cs.Callee)
			}
		}
	}
	return seen, sites
}
