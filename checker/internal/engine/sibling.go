package engine

import (
	"fmt"
	"go/ast"
	"go/types"
	"os"
	"regexp"
	"sort"
	"strings"
)

// fileBytes returns the source of a file (from the in-memory replacement when the program was
// derived with WithFile).
func (p *Prog) fileBytes(name string) ([]byte, error) {
	if b, ok := p.Overlay[name]; ok {
		return b, nil
	}
	return os.ReadFile(name)
}

var wsRe = regexp.MustCompile(`\s+`)

// Fingerprint returns the sorted multiset of normalised "statement heads" of a function: every
// simple statement and the header of every compound statement, with local identifiers renamed by
// order of first appearance and the given textual substitutions applied. Two functions with equal
// fingerprints consist of the same conditions, effects, constants and bounds, whatever their local
// names and the order of independent statements.
func (p *Prog) Fingerprint(fi *FuncInfo, subst [][2]string) ([]string, error) {
	fname := p.Fset.Position(fi.Decl.Pos()).Filename
	src, err := p.fileBytes(fname)
	if err != nil {
		return nil, err
	}
	info := fi.Pkg.TypesInfo
	off := func(n ast.Node) (int, int) { return p.Fset.Position(n.Pos()).Offset, p.Fset.Position(n.End()).Offset }
	names := map[types.Object]string{}
	local := func(o types.Object) bool {
		if o == nil || o.Pkg() == nil {
			return false
		}
		v, ok := o.(*types.Var)
		if !ok || v.IsField() {
			return false
		}
		return o.Parent() != o.Pkg().Scope()
	}
	// rename in order of declaration position
	var decls []types.Object
	ast.Inspect(fi.Decl, func(n ast.Node) bool {
		if id, ok := n.(*ast.Ident); ok {
			if o := info.Defs[id]; local(o) {
				decls = append(decls, o)
			}
		}
		return true
	})
	sort.Slice(decls, func(i, j int) bool { return decls[i].Pos() < decls[j].Pos() })
	for i, o := range decls {
		if _, ok := names[o]; !ok {
			names[o] = fmt.Sprintf("$%d", i)
		}
	}
	render := func(start, end int, scope ast.Node) string {
		type rep struct {
			s, e int
			t    string
		}
		var reps []rep
		ast.Inspect(scope, func(n ast.Node) bool {
			id, ok := n.(*ast.Ident)
			if !ok {
				return true
			}
			s, e := off(id)
			if s < start || e > end {
				return true
			}
			o := info.Uses[id]
			if o == nil {
				o = info.Defs[id]
			}
			if nm, ok := names[o]; ok {
				reps = append(reps, rep{s, e, nm})
			}
			return true
		})
		sort.Slice(reps, func(i, j int) bool { return reps[i].s < reps[j].s })
		var b strings.Builder
		cur := start
		for _, r := range reps {
			if r.s < cur {
				continue
			}
			b.Write(src[cur:r.s])
			b.WriteString(r.t)
			cur = r.e
		}
		b.Write(src[cur:end])
		s := b.String()
		// drop line comments
		var lines []string
		for _, l := range strings.Split(s, "\n") {
			if i := strings.Index(l, "//"); i >= 0 && !strings.Contains(l[:i], `"`) {
				l = l[:i]
			}
			lines = append(lines, l)
		}
		s = wsRe.ReplaceAllString(strings.Join(lines, " "), " ")
		for _, sb := range subst {
			s = regexp.MustCompile(sb[0]).ReplaceAllString(s, sb[1])
		}
		return strings.TrimSpace(s)
	}
	var out []string
	sig0, _ := off(fi.Decl.Type)
	sigE := p.Fset.Position(fi.Decl.Body.Lbrace).Offset
	out = append(out, "func "+render(sig0, sigE, fi.Decl.Type))
	var walk func(n ast.Node)
	walk = func(n ast.Node) {
		ast.Inspect(n, func(m ast.Node) bool {
			if m == nil || m == n {
				return true
			}
			st, ok := m.(ast.Stmt)
			if !ok {
				if _, isLit := m.(*ast.FuncLit); isLit {
					return true
				}
				return true
			}
			s, e := off(st)
			switch x := st.(type) {
			case *ast.BlockStmt:
				return true
			case *ast.IfStmt:
				out = append(out, render(s, p.Fset.Position(x.Body.Lbrace).Offset, x))
				return true
			case *ast.ForStmt:
				out = append(out, render(s, p.Fset.Position(x.Body.Lbrace).Offset, x))
				return true
			case *ast.RangeStmt:
				out = append(out, render(s, p.Fset.Position(x.Body.Lbrace).Offset, x))
				return true
			case *ast.SwitchStmt:
				out = append(out, render(s, p.Fset.Position(x.Body.Lbrace).Offset, x))
				return true
			case *ast.TypeSwitchStmt:
				out = append(out, render(s, p.Fset.Position(x.Body.Lbrace).Offset, x))
				return true
			case *ast.SelectStmt:
				out = append(out, "select")
				return true
			case *ast.CaseClause:
				out = append(out, render(s, p.Fset.Position(x.Colon).Offset, x))
				return true
			case *ast.CommClause:
				out = append(out, render(s, p.Fset.Position(x.Colon).Offset, x))
				return true
			case *ast.LabeledStmt:
				out = append(out, "label")
				return true
			default:
				out = append(out, render(s, e, st))
				// statements containing function literals: descend for their bodies too
				return true
			}
		})
	}
	walk(fi.Decl.Body)
	sort.Strings(out)
	return out, nil
}

// DiffMultiset returns the elements only in a and only in b.
func DiffMultiset(a, b []string) (onlyA, onlyB []string) {
	ca := map[string]int{}
	for _, x := range a {
		ca[x]++
	}
	for _, x := range b {
		if ca[x] > 0 {
			ca[x]--
		} else {
			onlyB = append(onlyB, x)
		}
	}
	for x, n := range ca {
		for i := 0; i < n; i++ {
			onlyA = append(onlyA, x)
		}
	}
	sort.Strings(onlyA)
	sort.Strings(onlyB)
	return
}
