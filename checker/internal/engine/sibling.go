package engine

import (
	"fmt"
	"go/ast"
	"go/types"
	"os"
	"regexp"
	"sort"
	"strings"
)

// fileBytes returns the source of a file (from the in-memory replacement when the program was
// derived with WithFile).
func (p *Prog) fileBytes(name string) ([]byte, error) {
	if b, ok := p.Overlay[name]; ok {
		return b, nil
	}
	return os.ReadFile(name)
}

var wsRe = regexp.MustCompile(`\s+`)

// Fingerprint returns the sorted multiset of normalised "statement heads" of a function: every
// simple statement and the header of every compound statement, with local identifiers renamed by
// order of first appearance and the given textual substitutions applied. Two functions with equal
// fingerprints consist of the same conditions, effects, constants and bounds, whatever their local
// names and the order of independent statements.
func (p *Prog) Fingerprint(fi *FuncInfo, subst [][2]string) ([]string, error) {
	fname := p.Fset.Position(fi.Decl.Pos()).Filename
	src, err := p.fileBytes(fname)
	if err != nil {
		return nil, err
	}
	info := fi.Pkg.TypesInfo
	off := func(n ast.Node) (int, int) { return p.Fset.Position(n.Pos()).Offset, p.Fset.Position(n.End()).Offset }
	names := map[types.Object]string{}
	local := func(o types.Object) bool {
		if o == nil || o.Pkg() == nil {
			return false
		}
		v, ok := o.(*types.Var)
		if !ok || v.IsField() {
			return false
		}
		return o.Parent() != o.Pkg().Scope()
	}
	// rename in order of declaration position
	var decls []types.Object
	ast.Inspect(fi.Decl, func(n ast.Node) bool {
		if id, ok := n.(*ast.Ident); ok {
			if o := info.Defs[id]; local(o) {
				decls = append(decls, o)
			}
		}
		return true
	})
	sort.Slice(decls, func(i, j int) bool { return decls[i].Pos() < decls[j].Pos() })
	for i, o := range decls {
		if _, ok := names[o]; !ok {
			names[o] = fmt.Sprintf("$%d", i)
		}
	}
	render := func(start, end int, scope ast.Node) string {
		type rep struct {
			s, e int
			t    string
		}
		var reps []rep
		ast.Inspect(scope, func(n ast.Node) bool {
			id, ok := n.(*ast.Ident)
			if !ok {
				return true
			}
			s, e := off(id)
			if s < start || e > end {
				return true
			}
			o := info.Uses[id]
			if o == nil {
				o = info.Defs[id]
			}
			if nm, ok := names[o]; ok {
				reps = append(reps, rep{s, e, nm})
			}
			return true
		})
		sort.Slice(reps, func(i, j int) bool { return reps[i].s < reps[j].s })
		var b strings.Builder
		cur := start
		for _, r := range reps {
			if r.s < cur {
				continue
			}
			b.Write(src[cur:r.s])
			b.WriteString(r.t)
			cur = r.e
		}
		b.Write(src[cur:end])
		s := b.String()
		// drop line comments
		var lines []string
		for _, l := range strings.Split(s, "\n") {
			if i := strings.Index(l, "//"); i >= 0 && !strings.Contains(l[:i], `"`) {
				l = l[:i]
			}
			lines = append(lines, l)
		}
		s = wsRe.ReplaceAllString(strings.Join(lines, " "), " ")
		for _, sb := range subst {
			s = regexp.MustCompile(sb[0]).ReplaceAllString(s, sb[1])
		}
		return strings.TrimSpace(s)
	}
	var out []string
	sig0, _ := off(fi.Decl.Type)
	sigE := p.Fset.Position(fi.Decl.Body.Lbrace).Offset
	out = append(out, "func "+render(sig0, sigE, fi.Decl.Type))
	var walk func(n ast.Node)
	walk = func(n ast.Node) {
		ast.Inspect(n, func(m ast.Node) bool {
			if m == nil || m == n {
				return true
			}
			st, ok := m.(ast.Stmt)
			if !ok {
				if _, isLit := m.(*ast.FuncLit); isLit {
					return true
				}
				return true
			}
			s, e := off(st)
			switch x := st.(type) {
			case *ast.BlockStmt:
				return true
			case *ast.IfStmt:
				out = append(out, render(s, p.Fset.Position(x.Body.Lbrace).Offset, x))
				return true
			case *ast.ForStmt:
				out = append(out, render(s, p.Fset.Position(x.Body.Lbrace).Offset, x))
				return true
			case *ast.RangeStmt:
				out = append(out, render(s, p.Fset.Position(x.Body.Lbrace).Offset, x))
				return true
			case *ast.SwitchStmt:
				out = append(out, render(s, p.Fset.Position(x.Body.Lbrace).Offset, x))
				return true
			case *ast.TypeSwitchStmt:
				out = append(out, render(s, p.Fset.Position(x.Body.Lbrace).Offset, x))
				return true
			case *ast.SelectStmt:
				out = append(out, "select")
				return true
			case *ast.CaseClause:
				out = append(out, render(s, p.Fset.Position(x.Colon).Offset, x))
				return true
			case *ast.CommClause:
				out = append(out, render(s, p.Fset.Position(x.Colon).Offset, x))
				return true
			case *ast.LabeledStmt:
				out = append(out, "label")
				return true
			default:
				out = append(out, render(s, e, st))
				// statements containing function literals: descend for their bodies too
				return true
			}
		})
	}
	walk(fi.Decl.Body)
	sort.Strings(out)
	return out, nil
}

// DiffMultiset returns the elements only in a and only in b.
func DiffMultiset(a, b []string) (onlyA, onlyB []string) {
	ca := map[string]int{}
	for _, x := range a {
		ca[x]++
	}
	for _, x := range b {
		if ca[x] > 0 {
			ca[x]--
		} else {
			onlyB = append(onlyB, x)
		}
	}
	for x, n := range ca {
		for i := 0; i < n; i++ {
			onlyA = append(onlyA, x)
		}
	}
	sort.Strings(onlyA)
	sort.Strings(onlyB)
	return
}

// Atoms returns what a function *does*, without how it is laid out: the set of resolved callees (with constant
// arguments), literals, field selections, binary operators with their operand types, case expressions,
// composite-literal types and keys, conversions, and constant results — of the function and of the helpers of
// its package that the tables have never seen (an extracted block is still part of the function). Control
// structure (if/else vs guard clause, switch vs chain, temporaries, local names, statement order, break/continue)
// leaves the set unchanged; a changed operator, constant, callee, field, accessor or message changes it.
func (p *Prog) Atoms(fi *FuncInfo, subst [][2]string) map[string]bool {
	out := map[string]bool{}
	verRe := regexp.MustCompile(`\bv[0-9]+\.`)
	norm := func(s string) string {
		for _, sb := range subst {
			s = regexp.MustCompile(sb[0]).ReplaceAllString(s, sb[1])
		}
		// the twins are written against the v2 and the v3 API packages, and pass records by pointer or by
		// value: neither is a difference of what the function does
		s = verRe.ReplaceAllString(s, "")
		return strings.ReplaceAll(s, "*", "")
	}
	tstr := func(t types.Type) string {
		if t == nil {
			return "?"
		}
		return norm(types.TypeString(t, func(pk *types.Package) string { return pk.Name() }))
	}
	tagless := map[ast.Node]bool{}
	for _, h := range p.WithHelpers(fi, 3, true) {
		info := h.Pkg.TypesInfo
		ast.Inspect(h.Decl.Body, func(n ast.Node) bool {
			switch x := n.(type) {
			case *ast.CallExpr:
				if tv, ok := info.Types[x.Fun]; ok && tv.IsType() {
					out["conv "+tstr(tv.Type)] = true
					return true
				}
				var id *ast.Ident
				switch f := ast.Unparen(x.Fun).(type) {
				case *ast.Ident:
					id = f
				case *ast.SelectorExpr:
					id = f.Sel
				}
				name := "dynamic"
				if id != nil {
					switch o := info.Uses[id].(type) {
					case *types.Func:
						if hf := p.Funcs[o]; hf != nil && hf.Pkg == fi.Pkg && IsNewHelper(hf) {
							return true // looked through
						}
						name = o.Name()
						if sig, ok := o.Type().(*types.Signature); ok && sig.Recv() != nil {
							name = tstr(sig.Recv().Type()) + "." + name
						} else if o.Pkg() != nil {
							name = o.Pkg().Name() + "." + name
						}
					case *types.Builtin:
						name = o.Name()
					}
				}
				var consts []string
				for _, a := range x.Args {
					if tv, ok := info.Types[a]; ok && tv.Value != nil {
						consts = append(consts, tv.Value.ExactString())
					}
				}
				out["call "+norm(name)+"("+strings.Join(consts, ",")+")"] = true
			case *ast.BasicLit:
				out["lit "+x.Value] = true
			case *ast.SelectorExpr:
				if sel := info.Selections[x]; sel != nil && sel.Kind() == types.FieldVal {
					out["field "+tstr(sel.Recv())+"."+x.Sel.Name] = true
				} else if c, ok := info.Uses[x.Sel].(*types.Const); ok {
					out["const "+norm(c.Pkg().Name()+"."+c.Name())] = true
				}
			case *ast.BinaryExpr:
				if x.Op.String() != "&&" && x.Op.String() != "||" {
					out["op "+x.Op.String()+" "+tstr(info.TypeOf(x.X))] = true
				}
			case *ast.SwitchStmt:
				if x.Tag == nil {
					for _, cl := range x.Body.List {
						tagless[cl] = true // `switch { case c: }` is an if chain: its conditions are operators, not cases
					}
				}
			case *ast.CaseClause:
				if tagless[x] {
					return true
				}
				for _, e := range x.List {
					if tv, ok := info.Types[e]; ok && tv.IsType() {
						out["case type "+tstr(tv.Type)] = true
					} else {
						out["case "+norm(types.ExprString(e))] = true
					}
				}
			case *ast.CompositeLit:
				t := tstr(info.TypeOf(x))
				out["lit-type "+t] = true
				for _, el := range x.Elts {
					if kv, ok := el.(*ast.KeyValueExpr); ok {
						if id, ok := kv.Key.(*ast.Ident); ok {
							out["lit-key "+t+"."+id.Name] = true
						}
					}
				}
			case *ast.IncDecStmt:
				out["incdec "+x.Tok.String()] = true
			case *ast.UnaryExpr:
				if x.Op.String() != "!" && x.Op.String() != "&" {
					out["unary "+x.Op.String()] = true
				}
			}
			return true
		})
	}
	return out
}
