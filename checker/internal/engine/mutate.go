package engine

import (
	"fmt"
	"go/ast"
	"go/token"
	"go/types"
	"os"
	"sort"
	"strings"
)

// Mutant is one single-point source change, applied as a byte-range replacement.
type Mutant struct {
	ID    string `json:"id"`
	File  string `json:"file"` // absolute path
	Start int    `json:"start"`
	End   int    `json:"end"`
	New   string `json:"new"`
	Op    string `json:"op"`
	Func  string `json:"func"`
	Pos   string `json:"pos"`
	Old   string `json:"old"`
}

// Apply returns the mutated file content.
func (m *Mutant) Apply() ([]byte, error) {
	src, err := os.ReadFile(m.File)
	if err != nil {
		return nil, err
	}
	if m.Start < 0 || m.End > len(src) || m.Start > m.End {
		return nil, fmt.Errorf("mutant range out of file")
	}
	if string(src[m.Start:m.End]) != m.Old {
		return nil, fmt.Errorf("mutant no longer applies")
	}
	out := append([]byte{}, src[:m.Start]...)
	out = append(out, m.New...)
	out = append(out, src[m.End:]...)
	return out, nil
}

// Mutants derives witness mutants from the functions of a package (optionally only those whose
// short name contains one of funcs).
func (p *Prog) Mutants(rel string, funcs []string) ([]*Mutant, error) {
	pkg, err := p.MustPkg(rel)
	if err != nil {
		return nil, err
	}
	info := pkg.TypesInfo
	var out []*Mutant
	srcCache := map[string][]byte{}
	for _, file := range pkg.Syntax {
		fname := p.Fset.Position(file.Pos()).Filename
		if strings.HasSuffix(fname, "_test.go") {
			continue
		}
		src, ok := srcCache[fname]
		if !ok {
			src, err = os.ReadFile(fname)
			if err != nil {
				return nil, err
			}
			srcCache[fname] = src
		}
		off := func(pos token.Pos) int { return p.Fset.Position(pos).Offset }
		text := func(n ast.Node) string { return string(src[off(n.Pos()):off(n.End())]) }
		for _, d := range file.Decls {
			fd, ok := d.(*ast.FuncDecl)
			if !ok || fd.Body == nil {
				continue
			}
			name := fd.Name.Name
			if obj, _ := info.Defs[fd.Name].(*types.Func); obj != nil {
				name = ShortFuncName(obj)
			}
			if len(funcs) > 0 {
				want := false
				for _, f := range funcs {
					if strings.Contains(name, f) {
						want = true
					}
				}
				if !want {
					continue
				}
			}
			add := func(op string, n ast.Node, start, end int, repl string) {
				out = append(out, &Mutant{File: fname, Start: start, End: end, New: repl, Op: op, Func: name,
					Pos: p.Pos(n.Pos()), Old: string(src[start:end])})
			}
			ast.Inspect(fd.Body, func(n ast.Node) bool {
				switch x := n.(type) {
				case *ast.IfStmt:
					add("negate-condition", x.Cond, off(x.Cond.Pos()), off(x.Cond.End()), "!("+text(x.Cond)+")")
					if x.Else == nil && x.Init == nil {
						add("drop-guarded-block", x, off(x.Pos()), off(x.End()), "")
					}
					if x.Else == nil && x.Init == nil {
						// make the guarded block unconditional
						add("unguard-block", x, off(x.Pos()), off(x.End()), "if true "+text(x.Body))
					}
				case *ast.BinaryExpr:
					var alts []string
					switch x.Op {
					case token.EQL:
						alts = []string{"!="}
					case token.NEQ:
						alts = []string{"=="}
					case token.LSS:
						alts = []string{"<=", ">"}
					case token.LEQ:
						alts = []string{"<"}
					case token.GTR:
						alts = []string{">=", "<"}
					case token.GEQ:
						alts = []string{">"}
					case token.LAND:
						alts = []string{"||"}
					case token.LOR:
						alts = []string{"&&"}
					case token.ADD:
						if tv, ok := info.Types[x]; ok && tv.Type != nil {
							if b, ok := tv.Type.Underlying().(*types.Basic); ok && b.Info()&types.IsInteger != 0 {
								alts = []string{"-"}
							}
						}
					case token.SUB:
						if tv, ok := info.Types[x]; ok && tv.Type != nil {
							if b, ok := tv.Type.Underlying().(*types.Basic); ok && b.Info()&types.IsInteger != 0 {
								alts = []string{"+"}
							}
						}
					}
					o := off(x.OpPos)
					for _, a := range alts {
						add("operator "+x.Op.String()+"→"+a, x, o, o+len(x.Op.String()), a)
					}
				case *ast.AssignStmt:
					if x.Tok != token.DEFINE {
						add("drop-assignment", x, off(x.Pos()), off(x.End()), "")
					}
				case *ast.IncDecStmt:
					add("drop-incdec", x, off(x.Pos()), off(x.End()), "")
				case *ast.ExprStmt:
					if call, ok := x.X.(*ast.CallExpr); ok {
						if isLogCall(call, info) {
							return true
						}
						add("drop-call", x, off(x.Pos()), off(x.End()), "")
					}
				case *ast.ReturnStmt:
					if n := len(x.Results); n >= 1 {
						if id, ok := x.Results[n-1].(*ast.Ident); ok && id.Name == "err" {
							add("swallow-error", x, off(id.Pos()), off(id.End()), "nil")
						}
						if id, ok := x.Results[n-1].(*ast.Ident); ok && id.Name == "nil" && n >= 2 {
							if t := info.TypeOf(x.Results[n-1]); t != nil {
								_ = t
							}
						}
					}
				case *ast.BranchStmt:
					if x.Tok == token.CONTINUE && x.Label == nil {
						add("continue→break", x, off(x.Pos()), off(x.End()), "break")
					}
				case *ast.CompositeLit:
					t := info.TypeOf(x)
					if t == nil {
						return true
					}
					if _, ok := t.Underlying().(*types.Struct); ok {
						for _, el := range x.Elts {
							kv, ok := el.(*ast.KeyValueExpr)
							if !ok {
								continue
							}
							// drop one keyed field (with the comma that follows when there is one)
							s, e := off(kv.Pos()), off(kv.End())
							for e < len(src) && (src[e] == ' ' || src[e] == '\t') {
								e++
							}
							if e < len(src) && src[e] == ',' {
								e++
							}
							add("drop-field "+types.ExprString(kv.Key), kv, s, e, "")
						}
					}
				case *ast.CallExpr:
					// drop a trailing option argument of a variadic call (IfVersion, WithReplay, ...)
					if sig, ok := info.TypeOf(x.Fun).(*types.Signature); ok && sig.Variadic() && len(x.Args) >= sig.Params().Len() && len(x.Args) > 0 && !isLogCall(x, info) {
						last := x.Args[len(x.Args)-1]
						s := off(last.Pos())
						if len(x.Args) > 1 {
							s = off(x.Args[len(x.Args)-2].End())
						}
						if x.Ellipsis == token.NoPos {
							add("drop-option "+types.ExprString(last), last, s, off(last.End()), "")
						}
					}
				case *ast.SelectorExpr, *ast.Ident:
					e := n.(ast.Expr)
					var id *ast.Ident
					switch y := e.(type) {
					case *ast.SelectorExpr:
						id = y.Sel
					case *ast.Ident:
						id = y
					}
					cst, ok := info.Uses[id].(*types.Const)
					if !ok || cst.Pkg() == nil {
						return true
					}
					if sel, isSel := e.(*ast.SelectorExpr); isSel {
						if _, isPkg := info.Uses[identOf(sel.X)].(*types.PkgName); !isPkg {
							return true
						}
					}
					dom := p.DomainNames(cst.Type())
					if len(dom) < 2 {
						return true
					}
					var names []string
					for n := range dom {
						names = append(names, n)
					}
					sort.Strings(names)
					self := pkgLabel(cst.Pkg()) + "." + cst.Name()
					for i, nm := range names {
						if nm == self {
							next := names[(i+1)%len(names)]
							short := next[strings.LastIndex(next, ".")+1:]
							add("constant "+cst.Name()+"→"+short, id, off(id.Pos()), off(id.End()), short)
							if len(names) > 2 {
								prev := names[(i+len(names)-1)%len(names)]
								shortp := prev[strings.LastIndex(prev, ".")+1:]
								add("constant "+cst.Name()+"→"+shortp, id, off(id.Pos()), off(id.End()), shortp)
							}
						}
					}
					if _, isSel := e.(*ast.SelectorExpr); isSel {
						return false
					}
				}
				return true
			})
		}
	}
	sort.SliceStable(out, func(i, j int) bool {
		if out[i].File != out[j].File {
			return out[i].File < out[j].File
		}
		return out[i].Start < out[j].Start
	})
	for i, m := range out {
		m.ID = fmt.Sprintf("%s#%d", rel, i)
	}
	return out, nil
}

func identOf(e ast.Expr) *ast.Ident {
	id, _ := e.(*ast.Ident)
	return id
}

func isLogCall(call *ast.CallExpr, info *types.Info) bool {
	sel, ok := call.Fun.(*ast.SelectorExpr)
	if !ok {
		return false
	}
	if fn, ok := info.Uses[sel.Sel].(*types.Func); ok && fn.Pkg() != nil {
		return strings.HasSuffix(fn.Pkg().Path(), "/logging")
	}
	return false
}
