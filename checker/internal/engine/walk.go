package engine

import (
	"fmt"
	"go/ast"
	"go/constant"
	"go/token"
	"go/types"
	"sort"
	"strings"
)

// EvKind is the kind of a path event.
type EvKind int

// Event kinds.
const (
	EvCond EvKind = iota
	EvCall
	EvWrite
	EvReturn
	EvLoopEnter
	EvLoopExit
	EvGo
	EvDefer
	EvSend
	EvRecv
	EvEnter // entry of an inlined function
	EvLeave // return from an inlined function
	EvBranch
	EvSite // a construct that can panic (only when Walker.Sites is set)
)

func (k EvKind) String() string {
	return [...]string{"cond", "call", "write", "return", "loop-enter", "loop-exit", "go", "defer", "send", "recv", "enter", "leave", "branch", "site"}[k]
}

// Event is one step of an enumerated path.
type Event struct {
	Kind  EvKind
	Pos   token.Pos
	Node  ast.Node
	Fn    *FuncInfo // function whose body contains Node
	Stack string    // positions of the inlining call sites leading here ("" at the root)
	Loops string    // ids of the enclosing open loops, outermost first

	// EvCond
	Lit      Lit
	CondExpr ast.Expr // the whole source condition this literal came from

	// EvCall / EvGo / EvDefer
	Callee     *types.Func
	CalleeName string // ShortFuncName, or builtin name, or "" for dynamic calls
	Recv       string
	Args       []string
	ArgExprs   []ast.Expr
	Canon      string // canonical string of the call's (first) value (a symbol for opaque statement-level calls)
	Def        string // full canonical call expression when Canon is a symbol
	Inlined    bool
	Deferred   bool // executed at function exit

	// EvWrite
	Field    string // "pkglabel.Struct.Field" for field writes, "" otherwise
	LHS      string // canonical (unversioned) path written
	RHS      string
	RHSConst *types.Const
	Op       string // "=", ":=", "++", "--", "+=", … ; "lit" for composite-literal keys
	Local    types.Object

	// EvSite
	SiteKind  string   // "deref", "index", "slice", "mapwrite", "assert"
	SiteX     string   // canonical operand (pointer dereferenced, collection indexed, map written)
	SiteIdx   []string // canonical index / bound operands
	SiteType  string   // static type of the operand
	SiteExpr  ast.Expr // the operand's expression
	SiteLocal []Lit    // conditions established to the left of the site inside the same boolean expression
	SiteField string   // field id of the operand when it is (an alias of) a struct field
	// EvReturn
	Results []string
	// EvSend / EvRecv
	Chan     string
	InSelect *ast.SelectStmt
	// EvBranch: break/continue
	Tok token.Token
	// EvLoopEnter
	Range  string // canonical range expression ("" for plain for loops)
	LoopID string // Loops value of the events directly inside the body
}

// Path is one enumerated path through a root function.
type Path struct {
	Root   *FuncInfo
	Lit    *ast.FuncLit // non-nil when the root is a function literal
	Events []Event
}

type evnode struct {
	ev   Event
	prev *evnode
	n    int
}

type pstate struct {
	env     map[types.Object]string
	consts  map[types.Object]*types.Const
	ver     map[string]int
	count   map[string]int
	events  *evnode
	lits    []Lit
	loops   []string
	stack   []*FuncInfo
	stackS  string
	defers  [][]Event
	loopOrd map[string]int
	fields  map[types.Object]string // variable -> field id of the struct field it aliases
}

func (s *pstate) fork() *pstate {
	n := &pstate{
		env: make(map[types.Object]string, len(s.env)), consts: make(map[types.Object]*types.Const, len(s.consts)),
		ver: make(map[string]int, len(s.ver)), count: make(map[string]int, len(s.count)),
		events: s.events, stackS: s.stackS, loopOrd: make(map[string]int, len(s.loopOrd)),
		fields: make(map[types.Object]string, len(s.fields)),
	}
	for k, v := range s.fields {
		n.fields[k] = v
	}
	for k, v := range s.env {
		n.env[k] = v
	}
	for k, v := range s.consts {
		n.consts[k] = v
	}
	for k, v := range s.ver {
		n.ver[k] = v
	}
	for k, v := range s.count {
		n.count[k] = v
	}
	for k, v := range s.loopOrd {
		n.loopOrd[k] = v
	}
	n.lits = append([]Lit(nil), s.lits...)
	n.loops = append([]string(nil), s.loops...)
	n.stack = append([]*FuncInfo(nil), s.stack...)
	n.defers = make([][]Event, len(s.defers))
	for i, d := range s.defers {
		n.defers[i] = append([]Event(nil), d...)
	}
	return n
}

type ctl struct {
	brk, cont func(*pstate)
	ret       func(*pstate, []string)
	labels    map[string]*ctl
	fn        *FuncInfo
	info      *types.Info
	named     []types.Object // named results
	isLoop    bool
	parent    *ctl
}

// Walker enumerates paths.
type Walker struct {
	P           *Prog
	MaxDepth    int
	exprDepth   int
	closures    map[types.Object]*ast.FuncLit // local variables bound once to a function literal
	closureOff  map[types.Object]bool         // … and then reassigned: not resolved
	closureDep  int
	helperLits  map[*ast.FuncDecl]*ast.FuncLit
	MaxPaths    int
	Inline      func(caller, callee *FuncInfo) bool
	Unsupported map[string]string // function name -> reason
	paths       []*Path
	npaths      int
	overflow    bool
	root        *FuncInfo
	rootLit     *ast.FuncLit
	FuncLits    []*LitRoot // function literals met (for separate enumeration)
	Sites       bool       // emit EvSite events
	seenLit     map[*ast.FuncLit]bool
}

// LitRoot is a function literal found in a walked function.
type LitRoot struct {
	Lit   *ast.FuncLit
	Owner *FuncInfo
	IsGo  bool
	// Bind names the parameters of a goroutine that was a literal and became `go helper(a, b)`: each parameter
	// stands for the caller's variable it is given, as the literal's free variable did
	Bind map[types.Object]string
}

// NewWalker creates a walker with the default inlining policy: same package, depth <= 4.
func NewWalker(p *Prog) *Walker {
	return &Walker{P: p, MaxDepth: 4, MaxPaths: 48000, Unsupported: map[string]string{}, seenLit: map[*ast.FuncLit]bool{},
		Inline: func(caller, callee *FuncInfo) bool { return caller.Pkg == callee.Pkg }}
}

func (w *Walker) unsupported(fn *FuncInfo, why string, pos token.Pos) {
	if _, ok := w.Unsupported[fn.Name()]; !ok {
		w.Unsupported[fn.Name()] = why + " at " + w.P.Pos(pos)
	}
}

// EnumerateFunc enumerates the paths of one root function.
func (w *Walker) EnumerateFunc(fn *FuncInfo) ([]*Path, error) {
	w.paths = nil
	w.root = fn
	w.rootLit = nil
	st := &pstate{env: map[types.Object]string{}, consts: map[types.Object]*types.Const{}, ver: map[string]int{}, count: map[string]int{}, loopOrd: map[string]int{}, fields: map[types.Object]string{}}
	st.stack = []*FuncInfo{fn}
	st.defers = [][]Event{nil}
	w.bindRootParams(fn.Decl.Recv, fn.Decl.Type, fn.Pkg.TypesInfo, st)
	c := &ctl{fn: fn, info: fn.Pkg.TypesInfo}
	c.named = namedResults(fn.Decl.Type, fn.Pkg.TypesInfo)
	c.ret = func(s *pstate, res []string) { w.finish(s, fn, res, fn.Decl.End()) }
	w.stmts(fn.Decl.Body.List, st, c, func(s *pstate) { w.finish(s, fn, w.namedVals(c, s), fn.Decl.End()) })
	if w.overflow {
		w.overflow = false
		w.paths = nil
		w.npaths = 0
		return nil, fmt.Errorf("path budget exceeded in %s", fn.Name())
	}
	w.npaths = 0
	return w.paths, nil
}

// EnumerateLit enumerates the paths of a function literal as its own root. Free variables are
// named ^name.
func (w *Walker) EnumerateLit(lr *LitRoot) ([]*Path, error) {
	w.paths = nil
	w.root = lr.Owner
	w.rootLit = lr.Lit
	st := &pstate{env: map[types.Object]string{}, consts: map[types.Object]*types.Const{}, ver: map[string]int{}, count: map[string]int{}, loopOrd: map[string]int{}, fields: map[types.Object]string{}}
	st.stack = []*FuncInfo{lr.Owner}
	st.defers = [][]Event{nil}
	w.bindRootParams(nil, lr.Lit.Type, lr.Owner.Pkg.TypesInfo, st)
	for o, v := range lr.Bind {
		st.env[o] = v
	}
	c := &ctl{fn: lr.Owner, info: lr.Owner.Pkg.TypesInfo}
	c.named = namedResults(lr.Lit.Type, lr.Owner.Pkg.TypesInfo)
	c.ret = func(s *pstate, res []string) { w.finish(s, lr.Owner, res, lr.Lit.End()) }
	w.stmts(lr.Lit.Body.List, st, c, func(s *pstate) { w.finish(s, lr.Owner, w.namedVals(c, s), lr.Lit.End()) })
	if w.overflow {
		w.overflow = false
		w.paths = nil
		w.npaths = 0
		return nil, fmt.Errorf("path budget exceeded in literal of %s", lr.Owner.Name())
	}
	w.npaths = 0
	return w.paths, nil
}

func namedResults(ft *ast.FuncType, info *types.Info) []types.Object {
	var out []types.Object
	if ft.Results == nil {
		return nil
	}
	for _, f := range ft.Results.List {
		for _, n := range f.Names {
			if o := info.Defs[n]; o != nil {
				out = append(out, o)
			}
		}
	}
	return out
}

func (w *Walker) namedVals(c *ctl, s *pstate) []string {
	var out []string
	for _, o := range c.named {
		out = append(out, w.varCanon(o, s))
	}
	return out
}

func (w *Walker) bindRootParams(recv *ast.FieldList, ft *ast.FuncType, info *types.Info, st *pstate) {
	if recv != nil {
		for _, f := range recv.List {
			for _, n := range f.Names {
				if o := info.Defs[n]; o != nil {
					st.env[o] = "$recv"
				}
			}
		}
	}
	seen := map[string]int{}
	if ft.Params != nil {
		for _, f := range ft.Params.List {
			for _, n := range f.Names {
				o := info.Defs[n]
				if o == nil {
					continue
				}
				name := "$" + n.Name
				if tn := namedTypeName(o.Type()); tn != "" {
					name = "$" + tn
				}
				seen[name]++
				if seen[name] > 1 {
					name = fmt.Sprintf("%s'%d", name, seen[name])
				}
				st.env[o] = name
			}
		}
	}
}

func namedTypeName(t types.Type) string {
	if p, ok := t.(*types.Pointer); ok {
		t = p.Elem()
	}
	if n, ok := t.(*types.Named); ok {
		if _, isStruct := n.Underlying().(*types.Struct); isStruct {
			return n.Obj().Name()
		}
	}
	return ""
}

func (w *Walker) finish(s *pstate, fn *FuncInfo, res []string, pos token.Pos) {
	// run the root frame's deferred calls
	s = w.runDefers(s)
	s = w.emit(s, Event{Kind: EvReturn, Pos: pos, Fn: fn, Results: res})
	w.record(s)
}

func (w *Walker) runDefers(s *pstate) *pstate {
	if len(s.defers) == 0 {
		return s
	}
	d := s.defers[len(s.defers)-1]
	for i := len(d) - 1; i >= 0; i-- {
		e := d[i]
		e.Kind = EvCall
		e.Deferred = true
		s = w.emit(s, e)
	}
	return s
}

func (w *Walker) record(s *pstate) {
	w.npaths++
	if w.npaths > w.MaxPaths {
		w.overflow = true
		return
	}
	n := 0
	if s.events != nil {
		n = s.events.n
	}
	evs := make([]Event, n)
	for e := s.events; e != nil; e = e.prev {
		evs[e.n-1] = e.ev
	}
	w.paths = append(w.paths, &Path{Root: w.root, Lit: w.rootLit, Events: evs})
}

func (w *Walker) emit(s *pstate, e Event) *pstate {
	if e.Stack == "" {
		e.Stack = s.stackS
	}
	if e.Loops == "" {
		e.Loops = strings.Join(s.loops, "/")
	}
	if e.Fn == nil && len(s.stack) > 0 {
		e.Fn = s.stack[len(s.stack)-1]
	}
	n := 1
	if s.events != nil {
		n = s.events.n + 1
	}
	s.events = &evnode{ev: e, prev: s.events, n: n}
	return s
}

// ---------------------------------------------------------------------------------------------
// statements

func (w *Walker) stmts(list []ast.Stmt, st *pstate, c *ctl, k func(*pstate)) {
	if w.overflow {
		return
	}
	if len(list) == 0 {
		k(st)
		return
	}
	w.stmt(list[0], st, c, func(s2 *pstate) { w.stmts(list[1:], s2, c, k) })
}

func (w *Walker) stmt(s ast.Stmt, st *pstate, c *ctl, k func(*pstate)) {
	if w.overflow {
		return
	}
	if w.Sites && s != nil {
		st = w.stmtSites(s, st, c)
	}
	switch x := s.(type) {
	case nil, *ast.EmptyStmt:
		k(st)
	case *ast.BlockStmt:
		w.stmts(x.List, st, c, k)
	case *ast.ExprStmt:
		if call, ok := ast.Unparen(x.X).(*ast.CallExpr); ok {
			w.call(call, st, c, func(s2 *pstate, _ []string) { k(s2) })
			return
		}
		if u, ok := ast.Unparen(x.X).(*ast.UnaryExpr); ok && u.Op == token.ARROW {
			w.evalCalls(u.X, st, c)
			st = w.emit(st, Event{Kind: EvRecv, Pos: x.Pos(), Node: x, Chan: w.canon(u.X, st, c)})
		}
		k(st)
	case *ast.DeclStmt:
		gd, ok := x.Decl.(*ast.GenDecl)
		if !ok || gd.Tok != token.VAR {
			k(st)
			return
		}
		var specs []*ast.ValueSpec
		for _, sp := range gd.Specs {
			specs = append(specs, sp.(*ast.ValueSpec))
		}
		w.valueSpecs(specs, st, c, k)
	case *ast.AssignStmt:
		w.assign(x, st, c, k)
	case *ast.IncDecStmt:
		w.evalCalls(x.X, st, c)
		op := "++"
		if x.Tok == token.DEC {
			op = "--"
		}
		st = w.write(x.X, "("+w.canon(x.X, st, c)+op+")", nil, op, x, st, c)
		k(st)
	case *ast.ReturnStmt:
		w.ret(x, st, c)
	case *ast.IfStmt:
		w.stmt(x.Init, st, c, func(s2 *pstate) {
			s2 = w.headSites(x.Cond, s2, c)
			w.cond(x.Cond, s2, c,
				func(s3 *pstate) { w.stmts(x.Body.List, s3, c, k) },
				func(s3 *pstate) {
					if x.Else == nil {
						k(s3)
					} else {
						w.stmt(x.Else, s3, c, k)
					}
				})
		})
	case *ast.SwitchStmt:
		w.switchStmt(x, st, c, k, "")
	case *ast.TypeSwitchStmt:
		w.typeSwitch(x, st, c, k, "")
	case *ast.ForStmt:
		w.forStmt(x, st, c, k, "")
	case *ast.RangeStmt:
		w.rangeStmt(x, st, c, k, "")
	case *ast.SelectStmt:
		w.selectStmt(x, st, c, k, "")
	case *ast.LabeledStmt:
		switch y := x.Stmt.(type) {
		case *ast.ForStmt:
			w.forStmt(y, st, c, k, x.Label.Name)
		case *ast.RangeStmt:
			w.rangeStmt(y, st, c, k, x.Label.Name)
		case *ast.SwitchStmt:
			w.switchStmt(y, st, c, k, x.Label.Name)
		case *ast.TypeSwitchStmt:
			w.typeSwitch(y, st, c, k, x.Label.Name)
		case *ast.SelectStmt:
			w.selectStmt(y, st, c, k, x.Label.Name)
		default:
			w.stmt(x.Stmt, st, c, k)
		}
	case *ast.BranchStmt:
		st = w.emit(st, Event{Kind: EvBranch, Pos: x.Pos(), Node: x, Tok: x.Tok})
		switch x.Tok {
		case token.BREAK:
			t := c
			if x.Label != nil {
				t = c.labels[x.Label.Name]
			} else {
				for t != nil && t.brk == nil {
					t = t.parent
				}
			}
			if t == nil || t.brk == nil {
				w.unsupported(c.fn, "break without target", x.Pos())
				return
			}
			t.brk(st)
		case token.CONTINUE:
			t := c
			if x.Label != nil {
				t = c.labels[x.Label.Name]
			} else {
				for t != nil && !t.isLoop {
					t = t.parent
				}
			}
			if t == nil || t.cont == nil {
				w.unsupported(c.fn, "continue without target", x.Pos())
				return
			}
			t.cont(st)
		default:
			w.unsupported(c.fn, "goto/fallthrough", x.Pos())
		}
	case *ast.GoStmt:
		if fl, ok := ast.Unparen(x.Call.Fun).(*ast.FuncLit); ok {
			w.noteLit(fl, c.fn, true)
		} else if target := w.P.Funcs[w.calleeOf(x.Call, c)]; target != nil && IsNewHelper(target) && target.Pkg == c.fn.Pkg && target.Decl.Recv == nil {
			// `go helper(a, b)` with a helper the tables have never seen: the goroutine literal it replaced
			bind := map[types.Object]string{}
			ok, i := true, 0
			for _, f := range target.Decl.Type.Params.List {
				for _, n := range f.Names {
					if i < len(x.Call.Args) {
						if id, isID := ast.Unparen(x.Call.Args[i]).(*ast.Ident); isID {
							if o := target.Pkg.TypesInfo.Defs[n]; o != nil {
								bind[o] = "^" + id.Name
							}
						} else {
							ok = false
						}
					}
					i++
				}
			}
			if ok {
				if w.helperLits == nil {
					w.helperLits = map[*ast.FuncDecl]*ast.FuncLit{}
				}
				fl := w.helperLits[target.Decl]
				if fl == nil {
					fl = &ast.FuncLit{Type: target.Decl.Type, Body: target.Decl.Body}
					w.helperLits[target.Decl] = fl
				}
				if !w.seenLit[fl] {
					w.seenLit[fl] = true
					w.FuncLits = append(w.FuncLits, &LitRoot{Lit: fl, Owner: c.fn, IsGo: true, Bind: bind})
				}
			}
		}
		for _, a := range x.Call.Args {
			w.evalCalls(a, st, c)
		}
		ev := w.callEvent(x.Call, st, c)
		ev.Kind = EvGo
		ev.Node = x
		st = w.emit(st, ev)
		k(st)
	case *ast.DeferStmt:
		for _, a := range x.Call.Args {
			w.evalCalls(a, st, c)
		}
		ev := w.callEvent(x.Call, st, c)
		ev.Kind = EvDefer
		ev.Node = x
		st = w.emit(st, ev)
		ev2 := ev
		ev2.Stack = st.stackS
		ev2.Fn = c.fn
		st.defers[len(st.defers)-1] = append(st.defers[len(st.defers)-1], ev2)
		if fl, ok := ast.Unparen(x.Call.Fun).(*ast.FuncLit); ok {
			w.noteLit(fl, c.fn, false)
		}
		k(st)
	case *ast.SendStmt:
		w.evalCalls(x.Value, st, c)
		st = w.emit(st, Event{Kind: EvSend, Pos: x.Pos(), Node: x, Chan: w.canon(x.Chan, st, c), RHS: w.canon(x.Value, st, c)})
		k(st)
	default:
		w.unsupported(c.fn, fmt.Sprintf("statement %T", s), s.Pos())
		k(st)
	}
}

func (w *Walker) noteLit(fl *ast.FuncLit, owner *FuncInfo, isGo bool) {
	if w.seenLit[fl] {
		return
	}
	w.seenLit[fl] = true
	w.FuncLits = append(w.FuncLits, &LitRoot{Lit: fl, Owner: owner, IsGo: isGo})
}

func (w *Walker) valueSpecs(specs []*ast.ValueSpec, st *pstate, c *ctl, k func(*pstate)) {
	if len(specs) == 0 {
		k(st)
		return
	}
	sp := specs[0]
	rest := func(s2 *pstate) { w.valueSpecs(specs[1:], s2, c, k) }
	if len(sp.Values) == 0 {
		for _, n := range sp.Names {
			if o := c.info.Defs[n]; o != nil {
				st.env[o] = "zero(" + w.typeStr(o.Type()) + ")"
				delete(st.consts, o)
				if b, ok := o.Type().Underlying().(*types.Basic); ok && b.Info()&types.IsBoolean != 0 {
					st.env[o] = "false"
				}
			}
		}
		rest(st)
		return
	}
	lhs := make([]ast.Expr, len(sp.Names))
	for i, n := range sp.Names {
		lhs[i] = n
	}
	w.assignExprs(lhs, sp.Values, token.DEFINE, sp, st, c, rest)
}

func (w *Walker) assign(x *ast.AssignStmt, st *pstate, c *ctl, k func(*pstate)) {
	if x.Tok != token.ASSIGN && x.Tok != token.DEFINE {
		// op-assign
		w.evalCalls(x.Rhs[0], st, c)
		op := x.Tok.String()
		bop := strings.TrimSuffix(op, "=")
		val := "(" + w.canon(x.Lhs[0], st, c) + " " + bop + " " + w.canon(x.Rhs[0], st, c) + ")"
		st = w.write(x.Lhs[0], val, nil, op, x, st, c)
		k(st)
		return
	}
	w.assignExprs(x.Lhs, x.Rhs, x.Tok, x, st, c, k)
}

func (w *Walker) assignExprs(lhs, rhs []ast.Expr, tok token.Token, node ast.Node, st *pstate, c *ctl, k func(*pstate)) {
	op := "="
	if tok == token.DEFINE {
		op = ":="
	}
	if len(rhs) == 1 && len(lhs) >= 1 {
		r := ast.Unparen(rhs[0])
		if call, ok := r.(*ast.CallExpr); ok {
			w.call(call, st, c, func(s2 *pstate, vals []string) {
				tv := c.info.Types[call]
				var vs []string
				if tup, ok := tv.Type.(*types.Tuple); ok && len(lhs) > 1 {
					vs = tupleNames(vals, tup)
				} else {
					vs = vals
				}
				for i, l := range lhs {
					v := "?"
					if i < len(vs) {
						v = vs[i]
					}
					s2 = w.write(l, v, nil, op, node, s2, c)
				}
				k(s2)
			})
			return
		}
		if len(lhs) == 2 {
			// comma-ok forms
			w.evalCalls(r, st, c)
			var v, ok string
			switch y := r.(type) {
			case *ast.IndexExpr:
				v = w.canon(y, st, c)
				ok = "has(" + v + ")"
			case *ast.TypeAssertExpr:
				v = w.canon(y, st, c)
				ok = "ok(" + v + ")"
			case *ast.UnaryExpr:
				if y.Op == token.ARROW {
					v = w.fresh("recv("+w.canon(y.X, st, c)+")", st)
					ok = "ok(" + v + ")"
					st = w.emit(st, Event{Kind: EvRecv, Pos: y.Pos(), Node: node, Chan: w.canon(y.X, st, c), Canon: v})
				}
			}
			if v == "" {
				w.unsupported(c.fn, "2-value assignment", node.Pos())
				v, ok = "?", "?"
			}
			st = w.writeRHS(lhs[0], v, nil, r, op, node, st, c)
			st = w.write(lhs[1], ok, nil, op, node, st, c)
			k(st)
			return
		}
	}
	if len(lhs) != len(rhs) {
		w.unsupported(c.fn, "assignment arity", node.Pos())
		k(st)
		return
	}
	for i, r := range rhs {
		if id, ok := lhs[i].(*ast.Ident); ok {
			obj := c.info.Defs[id]
			if obj == nil {
				obj = c.info.Uses[id]
			}
			if obj != nil {
				if w.closures == nil {
					w.closures, w.closureOff = map[types.Object]*ast.FuncLit{}, map[types.Object]bool{}
				}
				if fl, isLit := ast.Unparen(r).(*ast.FuncLit); isLit && c.info.Defs[id] != nil {
					w.closures[obj] = fl
				} else if _, had := w.closures[obj]; had {
					w.closureOff[obj] = true
				}
			}
		}
	}
	vals := make([]string, len(rhs))
	cs := make([]*types.Const, len(rhs))
	for i, r := range rhs {
		w.evalCalls(r, st, c)
		if u, ok := ast.Unparen(r).(*ast.UnaryExpr); ok && u.Op == token.ARROW {
			vals[i] = w.fresh("recv("+w.canon(u.X, st, c)+")", st)
			st = w.emit(st, Event{Kind: EvRecv, Pos: u.Pos(), Node: node, Chan: w.canon(u.X, st, c), Canon: vals[i]})
			continue
		}
		vals[i] = w.canonAlloc(r, st, c)
		cs[i] = w.constOf(r, st, c)
	}
	for i, l := range lhs {
		st = w.writeRHS(l, vals[i], cs[i], rhs[i], op, node, st, c)
	}
	k(st)
}

func tupleNames(vals []string, tup *types.Tuple) []string {
	if len(vals) == tup.Len() {
		return vals
	}
	base := "?"
	if len(vals) > 0 {
		base = vals[0]
	}
	return tupleFromCall(base, tup)
}

// tupleFromCall names the results of an opaque call whose canonical string is base.
func tupleFromCall(base string, tup *types.Tuple) []string {
	out := make([]string, tup.Len())
	for i := 0; i < tup.Len(); i++ {
		t := tup.At(i).Type()
		switch {
		case isErrorType(t):
			out[i] = "err(" + base + ")"
		case i == 0:
			out[i] = base
		case i == tup.Len()-1 && isBoolType(t):
			out[i] = "ok(" + base + ")"
		default:
			out[i] = fmt.Sprintf("%s.%d", base, i)
		}
	}
	return out
}

func isErrorType(t types.Type) bool {
	n, ok := t.(*types.Named)
	return ok && n.Obj().Pkg() == nil && n.Obj().Name() == "error"
}

func isBoolType(t types.Type) bool {
	b, ok := t.Underlying().(*types.Basic)
	return ok && b.Info()&types.IsBoolean != 0
}

func (w *Walker) fresh(base string, st *pstate) string {
	st.count[base]++
	if n := st.count[base]; n > 1 {
		return fmt.Sprintf("%s'%d", base, n)
	}
	return base
}

// write records an assignment of canonical value val to lhs.
func (w *Walker) write(lhs ast.Expr, val string, cst *types.Const, op string, node ast.Node, st *pstate, c *ctl) *pstate {
	return w.writeRHS(lhs, val, cst, nil, op, node, st, c)
}

func (w *Walker) writeRHS(lhs ast.Expr, val string, cst *types.Const, rhsExpr ast.Expr, op string, node ast.Node, st *pstate, c *ctl) *pstate {
	lhs = ast.Unparen(lhs)
	if id, ok := lhs.(*ast.Ident); ok {
		if id.Name == "_" {
			return st
		}
		obj := c.info.Defs[id]
		if obj == nil {
			obj = c.info.Uses[id]
		}
		if obj == nil {
			return st
		}
		if v, isVar := obj.(*types.Var); isVar && !v.IsField() && obj.Parent() != nil && obj.Parent() != obj.Pkg().Scope() {
			delete(st.fields, obj)
			if rhsExpr != nil {
				if f := FieldID(c.info, rhsExpr); f != "" {
					st.fields[obj] = f
				} else if f := w.aliasFieldID(rhsExpr, st, c); f != "" {
					st.fields[obj] = f
				}
			}
			st.env[obj] = val
			if cst != nil {
				st.consts[obj] = cst
			} else {
				delete(st.consts, obj)
			}
			st = w.emit(st, Event{Kind: EvWrite, Pos: node.Pos(), Node: node, LHS: id.Name, RHS: val, RHSConst: cst, Op: op, Local: obj})
			if rhsExpr != nil {
				st = w.litWrites(rhsExpr, id.Name, node, st, c)
			}
			return st
		}
		// package-level variable
		st = w.emit(st, Event{Kind: EvWrite, Pos: node.Pos(), Node: node, LHS: pkgLabel(obj.Pkg()) + "." + obj.Name(), RHS: val, RHSConst: cst, Op: op})
		return st
	}
	base := w.rawPath(lhs, st, c)
	field := w.fieldID(lhs, c)
	if field == "" {
		field = w.aliasFieldID(lhs, st, c)
	}
	st = w.emit(st, Event{Kind: EvWrite, Pos: node.Pos(), Node: node, Field: field, LHS: base, RHS: val, RHSConst: cst, Op: op})
	if rhsExpr != nil {
		st = w.litWrites(rhsExpr, base, node, st, c)
	}
	w.bump(lhs, base, st, c)
	return st
}

// aliasFieldID resolves the field a variable-rooted expression denotes when the variable is a
// parameter or local bound to a struct field (values[k] with values := config.Values).
func (w *Walker) aliasFieldID(e ast.Expr, st *pstate, c *ctl) string {
	switch y := ast.Unparen(e).(type) {
	case *ast.Ident:
		if obj := c.info.Uses[y]; obj != nil {
			return st.fields[obj]
		}
	case *ast.IndexExpr:
		if f := w.aliasFieldID(y.X, st, c); f != "" {
			return f + "[]"
		}
	}
	return ""
}

// bump starts a new version of the written path (for index expressions: of the collection).
func (w *Walker) bump(lhs ast.Expr, base string, st *pstate, c *ctl) {
	switch y := ast.Unparen(lhs).(type) {
	case *ast.IndexExpr:
		st.ver[w.rawPath(y.X, st, c)]++
	case *ast.StarExpr:
		st.ver[w.rawPath(y.X, st, c)]++
	default:
		st.ver[base]++
	}
}

// litWrites emits one write event per keyed field of a struct composite literal (recursively), so
// that "x.F = &T{K: v}" is visible as a write of T.K.
func (w *Walker) litWrites(e ast.Expr, base string, node ast.Node, st *pstate, c *ctl) *pstate {
	e = ast.Unparen(e)
	if u, ok := e.(*ast.UnaryExpr); ok && u.Op == token.AND {
		e = ast.Unparen(u.X)
	}
	cl, ok := e.(*ast.CompositeLit)
	if !ok {
		return st
	}
	t := c.info.TypeOf(cl)
	if t == nil {
		return st
	}
	stt, ok := t.Underlying().(*types.Struct)
	if !ok {
		return st
	}
	owner := typeLabel(t)
	for i, el := range cl.Elts {
		var fname string
		var val ast.Expr
		if kv, ok := el.(*ast.KeyValueExpr); ok {
			if id, ok := kv.Key.(*ast.Ident); ok {
				fname = id.Name
			}
			val = kv.Value
		} else if i < stt.NumFields() {
			fname = stt.Field(i).Name()
			val = el
		}
		if fname == "" {
			continue
		}
		st = w.emit(st, Event{Kind: EvWrite, Pos: el.Pos(), Node: node, Field: owner + "." + fname, LHS: base + "." + fname,
			RHS: w.canon(val, st, c), RHSConst: w.constOf(val, st, c), Op: "lit"})
		st = w.litWrites(val, base+"."+fname, node, st, c)
	}
	return st
}

func typeLabel(t types.Type) string {
	if p, ok := t.(*types.Pointer); ok {
		t = p.Elem()
	}
	if n, ok := t.(*types.Named); ok {
		if n.Obj().Pkg() != nil {
			return pkgLabel(n.Obj().Pkg()) + "." + n.Obj().Name()
		}
		return n.Obj().Name()
	}
	return t.String()
}

// fieldID returns "pkglabel.Struct.Field" when lhs selects a struct field.
func (w *Walker) fieldID(lhs ast.Expr, c *ctl) string {
	return FieldID(c.info, lhs)
}

// FieldID returns "pkglabel.Struct.Field" when e selects a struct field, "" otherwise. For an
// index expression the field of the indexed collection is returned with a "[]" suffix.
func FieldID(info *types.Info, e ast.Expr) string {
	e = ast.Unparen(e)
	switch y := e.(type) {
	case *ast.SelectorExpr:
		sel := info.Selections[y]
		if sel == nil || sel.Kind() != types.FieldVal {
			return ""
		}
		t := sel.Recv()
		idx := sel.Index()
		for _, i := range idx[:len(idx)-1] {
			st := derefStruct(t)
			if st == nil {
				return ""
			}
			t = st.Field(i).Type()
		}
		return typeLabel(t) + "." + y.Sel.Name
	case *ast.IndexExpr:
		if f := FieldID(info, y.X); f != "" {
			return f + "[]"
		}
	case *ast.StarExpr:
		return FieldID(info, y.X)
	}
	return ""
}

func derefStruct(t types.Type) *types.Struct {
	if p, ok := t.Underlying().(*types.Pointer); ok {
		t = p.Elem()
	}
	s, _ := t.Underlying().(*types.Struct)
	return s
}

func (w *Walker) ret(x *ast.ReturnStmt, st *pstate, c *ctl) {
	t := c
	for t != nil && t.ret == nil {
		t = t.parent
	}
	if t == nil {
		return
	}
	if len(x.Results) == 0 {
		t.ret(st, w.namedVals(t, st))
		return
	}
	if len(x.Results) == 1 {
		if call, ok := ast.Unparen(x.Results[0]).(*ast.CallExpr); ok {
			w.call(call, st, c, func(s2 *pstate, vals []string) {
				if tup, ok := c.info.Types[call].Type.(*types.Tuple); ok {
					vals = tupleNames(vals, tup)
				}
				t.ret(s2, vals)
			})
			return
		}
	}
	// `return R, f(…)`: a result that is a call of a function of the module with a single result is walked like
	// the statement form `err := f(…); return R, err` (its effects are effects of this path), left to right
	vals := make([]string, len(x.Results))
	var step func(i int, st *pstate)
	step = func(i int, st *pstate) {
		if i == len(x.Results) {
			t.ret(st, append([]string{}, vals...))
			return
		}
		r := x.Results[i]
		if call, ok := ast.Unparen(r).(*ast.CallExpr); ok && len(x.Results) > 1 {
			if target := w.P.Funcs[w.calleeOf(call, c)]; target != nil && w.Inline(c.fn, target) && len(st.stack) <= w.MaxDepth && !onStack(st.stack, target) {
				if sig, ok := target.Obj.Type().(*types.Signature); ok && sig.Results().Len() == 1 {
					w.call(call, st, c, func(s2 *pstate, vs []string) {
						if len(vs) == 1 {
							vals[i] = vs[0]
						} else {
							vals[i] = w.canon(r, s2, c)
						}
						step(i+1, s2)
					})
					return
				}
			}
		}
		w.evalCalls(r, st, c)
		vals[i] = w.canon(r, st, c)
		st = w.litWrites(r, "return", x, st, c)
		step(i+1, st)
	}
	step(0, st)
}

// ---------------------------------------------------------------------------------------------
// conditions

func (w *Walker) cond(e ast.Expr, st *pstate, c *ctl, kT, kF func(*pstate)) {
	// `if helper(…)` / `if !helper(…)` where helper is a predicate the obligation tables have never seen
	// ("extract condition into a function"): its paths are walked and the branch follows what it returns
	{
		x, negated := ast.Unparen(e), false
		if u, ok := x.(*ast.UnaryExpr); ok && u.Op == token.NOT {
			x, negated = ast.Unparen(u.X), true
		}
		if call, ok := x.(*ast.CallExpr); ok {
			if target := w.P.Funcs[w.calleeOf(call, c)]; target != nil && IsNewHelper(target) && w.Inline(c.fn, target) &&
				len(st.stack) <= w.MaxDepth && !onStack(st.stack, target) && target != c.fn {
				if sig, ok := target.Obj.Type().(*types.Signature); ok && sig.Results().Len() == 1 && isBoolType(sig.Results().At(0).Type()) {
					w.call(call, st, c, func(s *pstate, vals []string) {
						v := ""
						if len(vals) == 1 {
							v = vals[0]
						}
						switch {
						case v == "true" && !negated, v == "false" && negated:
							kT(s)
						case v == "false" && !negated, v == "true" && negated:
							kF(s)
						default:
							l := Lit{L: v, R: "true", Mask: mEQ, RConst: constant.MakeBool(true)}
							nl := Lit{L: v, R: "true", Mask: mLT | mGT, RConst: constant.MakeBool(true)}
							if negated {
								l, nl = nl, l
							}
							if s2 := w.assume(s.fork(), []Lit{l}, e); s2 != nil {
								kT(s2)
							}
							if s2 := w.assume(s.fork(), []Lit{nl}, e); s2 != nil {
								kF(s2)
							}
						}
					})
					return
				}
			}
		}
	}
	w.evalCalls(e, st, c)
	f := w.formula(e, st, c)
	pos, ok1 := DNF(f, false)
	neg, ok2 := DNF(f, true)
	if !ok1 || !ok2 {
		w.unsupported(c.fn, "condition too large", e.Pos())
		return
	}
	for _, d := range pos {
		if s2 := w.assume(st.fork(), d, e); s2 != nil {
			kT(s2)
		}
	}
	for _, d := range neg {
		if s2 := w.assume(st.fork(), d, e); s2 != nil {
			kF(s2)
		}
	}
}

// assume adds the literals to the path; nil when the path becomes infeasible.
func (w *Walker) assume(st *pstate, lits []Lit, src ast.Expr) *pstate {
	for _, l := range lits {
		if l.Mask == mLT|mEQ|mGT {
			continue
		}
		st.lits = append(st.lits, l)
		pos := token.NoPos
		if src != nil {
			pos = src.Pos()
		}
		st = w.emit(st, Event{Kind: EvCond, Pos: pos, Node: src, Lit: l, CondExpr: src})
	}
	if Unsat(st.lits, w.P.Domain) {
		return nil
	}
	return st
}

func (w *Walker) formula(e ast.Expr, st *pstate, c *ctl) Formula {
	e = ast.Unparen(e)
	switch x := e.(type) {
	case *ast.BinaryExpr:
		switch x.Op {
		case token.LAND:
			return FAnd{w.formula(x.X, st, c), w.formula(x.Y, st, c)}
		case token.LOR:
			return FOr{w.formula(x.X, st, c), w.formula(x.Y, st, c)}
		case token.EQL, token.NEQ, token.LSS, token.LEQ, token.GTR, token.GEQ:
			return w.cmpLit(x.X, x.Op.String(), x.Y, st, c)
		}
	case *ast.UnaryExpr:
		if x.Op == token.NOT {
			return FNot{w.formula(x.X, st, c)}
		}
	}
	s := w.canon(e, st, c)
	switch s {
	case "true":
		return FConst(true)
	case "false":
		return FConst(false)
	}
	// the canonical value may itself be a negation or comparison produced by substitution: a local that names a
	// condition (`subscribed := sctx.req != nil`) stands for that condition, as written when it was computed
	return canonFormula(s)
}

func (w *Walker) cmpLit(l ast.Expr, op string, r ast.Expr, st *pstate, c *ctl) Formula {
	ls, rs := w.canon(l, st, c), w.canon(r, st, c)
	lc, rc := w.constVal(l, st, c), w.constVal(r, st, c)
	lnil, rnil := ls == "nil", rs == "nil"
	mask := opMask(op)
	if lc != nil && rc != nil {
		return FConst(holds(lc, mask, rc, false))
	}
	if lnil && rnil {
		return FConst(mask&mEQ != 0)
	}
	// an error value that was just constructed is not nil: `return "", errors.NewInvalid(…)` in a helper followed
	// by `if err != nil` in its caller is one branch, not two
	if (lnil && constructedError(rs)) || (rnil && constructedError(ls)) {
		return FConst(mask&(mLT|mGT) != 0)
	}
	lt := c.info.TypeOf(l)
	// normalise: constants to the right; otherwise lexicographic order
	swap := false
	if (lc != nil || lnil) && !(rc != nil || rnil) {
		swap = true
	} else if lc == nil && !lnil && rc == nil && !rnil && ls > rs {
		swap = true
	}
	if swap {
		ls, rs = rs, ls
		lc, rc = rc, lc
		lnil, rnil = rnil, lnil
		mask = flipMask(mask)
		lt = c.info.TypeOf(r)
	}
	if ls == rs {
		return FConst(mask&mEQ != 0)
	}
	return FLit{Lit{L: ls, R: rs, Mask: mask, RConst: rc, RNil: rnil, LType: lt}}
}

// constVal returns the constant value of e (after substitution of locals bound to constants).
func (w *Walker) constVal(e ast.Expr, st *pstate, c *ctl) constant.Value {
	if tv, ok := c.info.Types[e]; ok && tv.Value != nil {
		return tv.Value
	}
	if cst := w.constOf(e, st, c); cst != nil {
		return cst.Val()
	}
	if id, ok := ast.Unparen(e).(*ast.Ident); ok {
		if obj := c.info.Uses[id]; obj != nil {
			switch st.env[obj] {
			case "true":
				return constant.MakeBool(true)
			case "false":
				return constant.MakeBool(false)
			}
		}
	}
	return nil
}

// constOf returns the named constant e denotes (directly or through a local bound to it).
func (w *Walker) constOf(e ast.Expr, st *pstate, c *ctl) *types.Const {
	e = ast.Unparen(e)
	switch x := e.(type) {
	case *ast.Ident:
		obj := c.info.Uses[x]
		if cst, ok := obj.(*types.Const); ok {
			return cst
		}
		if obj != nil {
			return st.consts[obj]
		}
	case *ast.SelectorExpr:
		if cst, ok := c.info.Uses[x.Sel].(*types.Const); ok {
			return cst
		}
	}
	return nil
}

// ---------------------------------------------------------------------------------------------
// switch / loops / select

func (w *Walker) switchStmt(x *ast.SwitchStmt, st *pstate, c *ctl, k func(*pstate), label string) {
	w.stmt(x.Init, st, c, func(s2 *pstate) {
		if x.Tag != nil {
			s2 = w.headSites(x.Tag, s2, c)
			w.evalCalls(x.Tag, s2, c)
		}
		cc := &ctl{parent: c, fn: c.fn, info: c.info, labels: c.labels, brk: k}
		if label != "" {
			cc.labels = withLabel(c.labels, label, cc)
		}
		var clauses []*ast.CaseClause
		var def *ast.CaseClause
		for _, s := range x.Body.List {
			cl := s.(*ast.CaseClause)
			if cl.List == nil {
				def = cl
			} else {
				clauses = append(clauses, cl)
			}
		}
		for _, cl := range x.Body.List {
			for _, s := range cl.(*ast.CaseClause).Body {
				if b, ok := s.(*ast.BranchStmt); ok && b.Tok == token.FALLTHROUGH {
					w.unsupported(c.fn, "fallthrough", b.Pos())
					return
				}
			}
		}
		caseFormula := func(cl *ast.CaseClause) Formula {
			var or FOr
			for _, v := range cl.List {
				if x.Tag != nil {
					or = append(or, w.cmpLit(x.Tag, "==", v, s2, c))
				} else {
					or = append(or, w.formula(v, s2, c))
				}
			}
			return or
		}
		// case i is taken when its formula holds and no earlier one did
		var prior FAnd
		for _, cl := range clauses {
			f := caseFormula(cl)
			full := append(FAnd{}, prior...)
			full = append(full, f)
			ds, ok := DNF(full, false)
			if !ok {
				w.unsupported(c.fn, "switch too large", cl.Pos())
				return
			}
			body := cl.Body
			for _, d := range ds {
				if s3 := w.assume(s2.fork(), d, condNode(cl, x)); s3 != nil {
					w.stmts(body, s3, cc, k)
				}
			}
			prior = append(prior, FNot{f})
		}
		ds, ok := DNF(prior, false)
		if !ok {
			w.unsupported(c.fn, "switch too large", x.Pos())
			return
		}
		for _, d := range ds {
			if s3 := w.assume(s2.fork(), d, condNode(def, x)); s3 != nil {
				if def != nil {
					w.stmts(def.Body, s3, cc, k)
				} else {
					k(s3)
				}
			}
		}
	})
}

func condNode(cl *ast.CaseClause, sw ast.Stmt) ast.Expr {
	if cl != nil && len(cl.List) > 0 {
		return cl.List[0]
	}
	switch s := sw.(type) {
	case *ast.SwitchStmt:
		if s.Tag != nil {
			return s.Tag
		}
	}
	return nil
}

func withLabel(m map[string]*ctl, l string, c *ctl) map[string]*ctl {
	n := map[string]*ctl{}
	for k, v := range m {
		n[k] = v
	}
	n[l] = c
	return n
}

func (w *Walker) typeSwitch(x *ast.TypeSwitchStmt, st *pstate, c *ctl, k func(*pstate), label string) {
	w.stmt(x.Init, st, c, func(s2 *pstate) {
		switch a := x.Assign.(type) {
		case *ast.AssignStmt:
			s2 = w.headSites(a.Rhs[0], s2, c)
		case *ast.ExprStmt:
			s2 = w.headSites(a.X, s2, c)
		}
		var subject ast.Expr
		var bind *ast.Ident
		switch a := x.Assign.(type) {
		case *ast.AssignStmt:
			bind = a.Lhs[0].(*ast.Ident)
			subject = ast.Unparen(a.Rhs[0]).(*ast.TypeAssertExpr).X
		case *ast.ExprStmt:
			subject = ast.Unparen(a.X).(*ast.TypeAssertExpr).X
		}
		w.evalCalls(subject, s2, c)
		subj := w.canon(subject, s2, c)
		cc := &ctl{parent: c, fn: c.fn, info: c.info, labels: c.labels, brk: k}
		if label != "" {
			cc.labels = withLabel(c.labels, label, cc)
		}
		var prior []Lit
		var def *ast.CaseClause
		for _, s := range x.Body.List {
			cl := s.(*ast.CaseClause)
			if cl.List == nil {
				def = cl
				continue
			}
			for _, te := range cl.List {
				tn := "nil"
				if t := c.info.TypeOf(te); t != nil {
					if _, isNil := t.(*types.Basic); !isNil || t.String() != "untyped nil" {
						tn = w.typeStr(t)
					}
				}
				lit := Lit{L: "type(" + subj + ")", R: tn, Mask: mEQ, RConst: constant.MakeString(tn)}
				s3 := s2.fork()
				s3 = w.assume(s3, append(append([]Lit(nil), prior...), lit), subject)
				if s3 == nil {
					continue
				}
				if bind != nil {
					if o := c.info.Implicits[cl]; o != nil {
						if len(cl.List) == 1 {
							s3.env[o] = subj + ".(" + tn + ")"
						} else {
							s3.env[o] = subj
						}
					}
				}
				w.stmts(cl.Body, s3, cc, k)
			}
			for _, te := range cl.List {
				tn := "nil"
				if t := c.info.TypeOf(te); t != nil && t.String() != "untyped nil" {
					tn = w.typeStr(t)
				}
				prior = append(prior, Lit{L: "type(" + subj + ")", R: tn, Mask: mLT | mGT, RConst: constant.MakeString(tn)})
			}
		}
		s3 := w.assume(s2.fork(), prior, subject)
		if s3 == nil {
			return
		}
		if def != nil {
			if bind != nil {
				if o := c.info.Implicits[def]; o != nil {
					s3.env[o] = subj
				}
			}
			w.stmts(def.Body, s3, cc, k)
		} else {
			k(s3)
		}
	})
}

// assignedIn collects, for a loop body, the outer local variables it assigns and the field/index
// paths it writes.
func (w *Walker) assignedIn(body ast.Node, c *ctl) (objs []types.Object, paths []ast.Expr) {
	seen := map[types.Object]bool{}
	add := func(e ast.Expr, define bool) {
		e = ast.Unparen(e)
		if id, ok := e.(*ast.Ident); ok {
			if id.Name == "_" {
				return
			}
			obj := c.info.Uses[id]
			if obj == nil {
				return // a definition inside the loop
			}
			if obj.Pos() >= body.Pos() && obj.Pos() < body.End() {
				return
			}
			if !seen[obj] {
				seen[obj] = true
				objs = append(objs, obj)
			}
			return
		}
		paths = append(paths, e)
	}
	ast.Inspect(body, func(n ast.Node) bool {
		switch y := n.(type) {
		case *ast.FuncLit:
			return false
		case *ast.AssignStmt:
			for _, l := range y.Lhs {
				add(l, y.Tok == token.DEFINE)
			}
		case *ast.IncDecStmt:
			add(y.X, false)
		case *ast.RangeStmt:
			if y.Tok == token.ASSIGN {
				if y.Key != nil {
					add(y.Key, false)
				}
				if y.Value != nil {
					add(y.Value, false)
				}
			}
		}
		return true
	})
	return
}

func (w *Walker) havoc(body ast.Node, st *pstate, c *ctl, tag string) {
	objs, paths := w.assignedIn(body, c)
	for _, o := range objs {
		st.env[o] = w.fresh("?"+o.Name()+"@"+tag, st)
		delete(st.consts, o)
	}
	for _, p := range paths {
		w.bump(p, w.rawPath(p, st, c), st, c)
	}
}

func (w *Walker) loopID(node ast.Node, st *pstate) string {
	return fmt.Sprintf("L%d%s", w.P.Fset.Position(node.Pos()).Line, strings.ReplaceAll(st.stackS, "/", "_"))
}

func (w *Walker) enterLoop(node ast.Node, rng string, st *pstate) (*pstate, int) {
	id := w.loopID(node, st)
	mark := len(st.lits)
	inner := strings.Join(append(append([]string(nil), st.loops...), id), "/")
	st = w.emit(st, Event{Kind: EvLoopEnter, Pos: node.Pos(), Node: node, Range: rng, LoopID: inner})
	st.loops = append(st.loops, id)
	return st, mark
}

func (w *Walker) exitLoop(node ast.Node, st *pstate, mark int) *pstate {
	if len(st.loops) > 0 {
		st.loops = st.loops[:len(st.loops)-1]
	}
	if mark <= len(st.lits) {
		st.lits = st.lits[:mark]
	}
	st = w.emit(st, Event{Kind: EvLoopExit, Pos: node.Pos(), Node: node})
	return st
}

func (w *Walker) forStmt(x *ast.ForStmt, st *pstate, c *ctl, k func(*pstate), label string) {
	w.stmt(x.Init, st, c, func(s2 *pstate) {
		tag := fmt.Sprintf("L%d", w.P.Fset.Position(x.Pos()).Line)
		s2 = s2.fork()
		w.havoc(x, s2, c, tag)
		after := func(s *pstate, mark int) {
			s = w.exitLoop(x, s, mark)
			w.havoc(x, s, c, tag)
			k(s)
		}
		body := func(s *pstate) {
			s, mark := w.enterLoop(x, "", s)
			cc := &ctl{parent: c, fn: c.fn, info: c.info, labels: c.labels, isLoop: true}
			cc.brk = func(sb *pstate) { after(sb, mark) }
			// one abstract iteration: reaching the end of the body (or continue) either leaves the
			// loop (condition false at the next test) or stands for further iterations.
			cc.cont = func(sb *pstate) {
				if x.Cond != nil {
					after(sb, mark)
					return
				}
				// for {} without condition leaves only through break/return: the path that reaches
				// the end of the body is recorded as ending in a loop-back.
				sb = w.emit(sb, Event{Kind: EvBranch, Pos: x.Body.End(), Node: x, Tok: token.FOR})
				w.record(sb)
			}
			if label != "" {
				cc.labels = withLabel(c.labels, label, cc)
			}
			w.stmts(x.Body.List, s, cc, func(se *pstate) {
				w.stmt(x.Post, se, cc, cc.cont)
			})
		}
		if x.Cond != nil {
			s2 = w.headSites(x.Cond, s2, c)
			w.cond(x.Cond, s2, c, body, func(s *pstate) {
				// zero iterations
				s, mark := w.enterLoop(x, "", s)
				after(s, mark)
			})
		} else {
			body(s2)
		}
	})
}

func (w *Walker) rangeStmt(x *ast.RangeStmt, st *pstate, c *ctl, k func(*pstate), label string) {
	w.evalCalls(x.X, st, c)
	rng := w.canon(x.X, st, c)
	tag := fmt.Sprintf("L%d", w.P.Fset.Position(x.Pos()).Line)
	after := func(s *pstate, mark int) {
		s = w.exitLoop(x, s, mark)
		w.havoc(x.Body, s, c, tag)
		k(s)
	}
	// zero iterations
	{
		s := st.fork()
		s, mark := w.enterLoop(x, rng, s)
		after(s, mark)
	}
	// one abstract iteration
	s := st.fork()
	w.havoc(x.Body, s, c, tag)
	s.loopOrd[rng]++
	suffix := ""
	if n := s.loopOrd[rng]; n > 1 {
		suffix = fmt.Sprintf("'%d", n)
	}
	s, mark := w.enterLoop(x, rng, s)
	bindRange := func(e ast.Expr, val string) {
		if e == nil {
			return
		}
		s = w.write(e, val, nil, ":=", x, s, c)
	}
	tx := c.info.TypeOf(x.X)
	isChan := false
	if tx != nil {
		_, isChan = tx.Underlying().(*types.Chan)
	}
	if isChan {
		bindRange(x.Key, "recv"+suffix+"("+rng+")")
	} else {
		bindRange(x.Key, "key"+suffix+"("+rng+")")
		bindRange(x.Value, "elem"+suffix+"("+rng+")")
	}
	cc := &ctl{parent: c, fn: c.fn, info: c.info, labels: c.labels, isLoop: true}
	cc.brk = func(sb *pstate) { after(sb, mark) }
	cc.cont = func(sb *pstate) { after(sb, mark) }
	if label != "" {
		cc.labels = withLabel(c.labels, label, cc)
	}
	w.stmts(x.Body.List, s, cc, cc.cont)
}

func (w *Walker) selectStmt(x *ast.SelectStmt, st *pstate, c *ctl, k func(*pstate), label string) {
	cc := &ctl{parent: c, fn: c.fn, info: c.info, labels: c.labels, brk: k}
	if label != "" {
		cc.labels = withLabel(c.labels, label, cc)
	}
	for _, s := range x.Body.List {
		cl := s.(*ast.CommClause)
		s2 := st.fork()
		cont := func(s3 *pstate) { w.stmts(cl.Body, s3, cc, k) }
		switch comm := cl.Comm.(type) {
		case nil:
			cont(s2)
		case *ast.SendStmt:
			w.evalCalls(comm.Value, s2, c)
			s2 = w.emit(s2, Event{Kind: EvSend, Pos: comm.Pos(), Node: comm, Chan: w.canon(comm.Chan, s2, c), RHS: w.canon(comm.Value, s2, c), InSelect: x})
			cont(s2)
		case *ast.ExprStmt:
			if u, ok := ast.Unparen(comm.X).(*ast.UnaryExpr); ok && u.Op == token.ARROW {
				w.evalCalls(u.X, s2, c)
				s2 = w.emit(s2, Event{Kind: EvRecv, Pos: comm.Pos(), Node: comm, Chan: w.canon(u.X, s2, c), InSelect: x})
			}
			cont(s2)
		case *ast.AssignStmt:
			if u, ok := ast.Unparen(comm.Rhs[0]).(*ast.UnaryExpr); ok && u.Op == token.ARROW {
				w.evalCalls(u.X, s2, c)
				ch := w.canon(u.X, s2, c)
				v := w.fresh("recv("+ch+")", s2)
				s2 = w.emit(s2, Event{Kind: EvRecv, Pos: comm.Pos(), Node: comm, Chan: ch, Canon: v, InSelect: x})
				op := "="
				if comm.Tok == token.DEFINE {
					op = ":="
				}
				s2 = w.write(comm.Lhs[0], v, nil, op, comm, s2, c)
				if len(comm.Lhs) > 1 {
					s2 = w.write(comm.Lhs[1], "ok("+v+")", nil, op, comm, s2, c)
				}
			}
			cont(s2)
		}
	}
}

// ---------------------------------------------------------------------------------------------
// calls

// evalCalls emits call events for every call inside e (inner first), without inlining.
func (w *Walker) evalCalls(e ast.Expr, st *pstate, c *ctl) {
	if e == nil {
		return
	}
	var calls []*ast.CallExpr
	ast.Inspect(e, func(n ast.Node) bool {
		switch y := n.(type) {
		case *ast.FuncLit:
			w.noteLit(y, c.fn, false)
			return false
		case *ast.CallExpr:
			calls = append(calls, y)
		}
		return true
	})
	for i := len(calls) - 1; i >= 0; i-- {
		call := calls[i]
		if tv, ok := c.info.Types[call.Fun]; ok && tv.IsType() {
			continue
		}
		ev := w.callEvent(call, st, c)
		*st = *w.emit(st, ev)
	}
}

func (w *Walker) calleeOf(call *ast.CallExpr, c *ctl) *types.Func {
	var id *ast.Ident
	switch f := ast.Unparen(call.Fun).(type) {
	case *ast.Ident:
		id = f
	case *ast.SelectorExpr:
		id = f.Sel
	case *ast.IndexExpr: // generic instantiation
		switch g := ast.Unparen(f.X).(type) {
		case *ast.Ident:
			id = g
		case *ast.SelectorExpr:
			id = g.Sel
		}
	}
	if id == nil {
		return nil
	}
	fn, _ := c.info.Uses[id].(*types.Func)
	return fn
}

func (w *Walker) callEvent(call *ast.CallExpr, st *pstate, c *ctl) Event {
	ev := Event{Kind: EvCall, Pos: call.Pos(), Node: call}
	ev.Callee = w.calleeOf(call, c)
	if ev.Callee != nil {
		ev.CalleeName = ShortFuncName(ev.Callee)
	} else if id, ok := ast.Unparen(call.Fun).(*ast.Ident); ok {
		if _, isB := c.info.Uses[id].(*types.Builtin); isB {
			ev.CalleeName = id.Name
		}
	}
	if sel, ok := ast.Unparen(call.Fun).(*ast.SelectorExpr); ok {
		if s := c.info.Selections[sel]; s != nil {
			ev.Recv = w.canon(sel.X, st, c)
		}
	}
	for _, a := range call.Args {
		if t := c.info.TypeOf(a); t != nil && isContext(t) {
			continue
		}
		ev.Args = append(ev.Args, w.canon(a, st, c))
		ev.ArgExprs = append(ev.ArgExprs, a)
	}
	ev.Canon = w.canon(call, st, c)
	return ev
}

func isContext(t types.Type) bool {
	n, ok := t.(*types.Named)
	return ok && n.Obj().Pkg() != nil && n.Obj().Pkg().Path() == "context" && n.Obj().Name() == "Context"
}

// call processes a call in statement position (possibly inlining it) and continues with the
// canonical values of its results.
func (w *Walker) call(call *ast.CallExpr, st *pstate, c *ctl, k func(*pstate, []string)) {
	if tv, ok := c.info.Types[call.Fun]; ok && tv.IsType() {
		w.evalCalls(call, st, c)
		k(st, []string{w.canon(call, st, c)})
		return
	}
	for _, a := range call.Args {
		w.evalCalls(a, st, c)
	}
	if sel, ok := ast.Unparen(call.Fun).(*ast.SelectorExpr); ok {
		w.evalCalls(sel.X, st, c)
	}
	callee := w.calleeOf(call, c)
	var target *FuncInfo
	if callee != nil {
		target = w.P.Funcs[callee]
	}
	// a call of a local closure (`fail := func(…) … { … }; return fail(a, b)`): its body runs here, with the
	// arguments bound; the free variables are this function's own
	if callee == nil && w.closureDep < 3 {
		if id, ok := ast.Unparen(call.Fun).(*ast.Ident); ok {
			if obj := c.info.Uses[id]; obj != nil && w.closures[obj] != nil && !w.closureOff[obj] {
				fl := w.closures[obj]
				if fl.Pos() >= c.fn.Decl.Pos() && fl.End() <= c.fn.Decl.End() {
					ev := w.callEvent(call, st, c)
					ev.Inlined = true
					st = w.emit(st, ev)
					ok := true
					i := 0
					for _, f := range fl.Type.Params.List {
						if _, variadic := f.Type.(*ast.Ellipsis); variadic {
							ok = false
						}
						for _, n := range f.Names {
							if o := c.info.Defs[n]; o != nil && i < len(call.Args) {
								st.env[o] = w.canon(call.Args[i], st, c)
								if k := w.constOf(call.Args[i], st, c); k != nil {
									st.consts[o] = k
								} else {
									delete(st.consts, o)
								}
							}
							i++
						}
						if len(f.Names) == 0 {
							i++
						}
					}
					if ok {
						cc := &ctl{fn: c.fn, info: c.info}
						cc.named = namedResults(fl.Type, c.info)
						for _, o := range cc.named {
							st.env[o] = "zero(" + w.typeStr(o.Type()) + ")"
						}
						loopDepth := len(st.loops)
						cc.ret = func(s *pstate, res []string) {
							if len(s.loops) > loopDepth {
								s.loops = s.loops[:loopDepth]
							}
							w.closureDep--
							k(s, res)
							w.closureDep++
						}
						w.closureDep++
						w.stmts(fl.Body.List, st, cc, func(s *pstate) { cc.ret(s, w.namedVals(cc, s)) })
						w.closureDep--
						return
					}
				}
			}
		}
	}
	inline := target != nil && len(st.stack) <= w.MaxDepth && w.Inline(c.fn, target)
	if inline {
		for _, f := range st.stack {
			if f == target {
				inline = false
			}
		}
	}
	ev := w.callEvent(call, st, c)
	if !inline {
		// opaque: interface-method calls get an occurrence counter so that two reads of a store are two values
		if callee != nil && isInterfaceMethod(callee) {
			ev.Canon = w.fresh(ev.Canon, st)
		}
		// the result of an opaque call in statement position is named by a short symbol
		if callee != nil && isInterfaceMethod(callee) {
			ev.Def = ev.Canon
			ev.Canon = w.P.Sym(ev.Canon)
		}
		if ev.CalleeName == "make" || ev.CalleeName == "new" {
			st.count["alloc"]++
			ev.Canon = fmt.Sprintf("%s@%d", ev.Canon, st.count["alloc"])
		}
		st = w.emit(st, ev)
		if fl, ok := ast.Unparen(call.Fun).(*ast.FuncLit); ok {
			w.noteLit(fl, c.fn, false)
		}
		var vals []string
		rt := c.info.Types[call].Type
		if tup, ok := rt.(*types.Tuple); ok {
			vals = tupleFromCall(ev.Canon, tup)
		} else if rt != nil && isErrorType(rt) {
			vals = []string{"err(" + ev.Canon + ")"}
		} else {
			vals = []string{ev.Canon}
		}
		k(st, vals)
		return
	}
	ev.Inlined = true
	st = w.emit(st, ev)
	// bind parameters
	sig := callee.Type().(*types.Signature)
	decl := target.Decl
	tinfo := target.Pkg.TypesInfo
	args := make([]string, len(call.Args))
	argc := make([]*types.Const, len(call.Args))
	for i, a := range call.Args {
		args[i] = w.canon(a, st, c)
		argc[i] = w.constOf(a, st, c)
	}
	recvCanon := ""
	if sel, ok := ast.Unparen(call.Fun).(*ast.SelectorExpr); ok && sig.Recv() != nil {
		recvCanon = w.canon(sel.X, st, c)
	}
	if decl.Recv != nil {
		for _, f := range decl.Recv.List {
			for _, n := range f.Names {
				if o := tinfo.Defs[n]; o != nil {
					st.env[o] = recvCanon
				}
			}
		}
	}
	i := 0
	for _, f := range decl.Type.Params.List {
		for _, n := range f.Names {
			o := tinfo.Defs[n]
			if _, variadic := f.Type.(*ast.Ellipsis); variadic {
				if o != nil {
					st.env[o] = "[" + strings.Join(args[min(i, len(args)):], ",") + "]"
				}
				i = len(args)
				continue
			}
			if o != nil && i < len(args) {
				delete(st.fields, o)
				if f := FieldID(c.info, call.Args[i]); f != "" {
					st.fields[o] = f
				} else if f := w.aliasFieldID(call.Args[i], st, c); f != "" {
					st.fields[o] = f
				}
				st.env[o] = args[i]
				if argc[i] != nil {
					st.consts[o] = argc[i]
				} else {
					delete(st.consts, o)
				}
			}
			i++
		}
		if len(f.Names) == 0 {
			i++
		}
	}
	st.stack = append(st.stack, target)
	prevStackS := st.stackS
	st.stackS = st.stackS + "/" + w.P.Pos(call.Pos())
	st.defers = append(st.defers, nil)
	st = w.emit(st, Event{Kind: EvEnter, Pos: decl.Pos(), Node: decl, Fn: target})
	cc := &ctl{fn: target, info: tinfo}
	cc.named = namedResults(decl.Type, tinfo)
	for _, o := range cc.named {
		st.env[o] = "zero(" + w.typeStr(o.Type()) + ")"
	}
	loopDepth := len(st.loops)
	leave := func(s *pstate, res []string) {
		// a return from inside a loop of the callee leaves that loop
		if len(s.loops) > loopDepth {
			s.loops = s.loops[:loopDepth]
		}
		s = w.runDefers(s)
		s.defers = s.defers[:len(s.defers)-1]
		s.stack = s.stack[:len(s.stack)-1]
		s = w.emit(s, Event{Kind: EvLeave, Pos: call.Pos(), Node: call, Fn: target, Results: res})
		s.stackS = prevStackS
		k(s, res)
	}
	cc.ret = leave
	w.stmts(decl.Body.List, st, cc, func(s *pstate) { leave(s, w.namedVals(cc, s)) })
}

// exprHelper: a call of a helper the obligation tables have never seen (known.go) whose body is a single
// `return <expression>` stands for that expression with the arguments substituted — "extract expression into a
// function" leaves the canonical form of a value unchanged. Helpers of the walked module only, no recursion.
func (w *Walker) exprHelper(call *ast.CallExpr, callee *types.Func, st *pstate, c *ctl) (string, bool) {
	target := w.P.Funcs[callee]
	if target == nil || !IsNewHelper(target) || target == c.fn || w.exprDepth > 3 {
		return "", false
	}
	decl := target.Decl
	if decl.Body == nil || len(decl.Body.List) != 1 || decl.Recv != nil {
		return "", false
	}
	ret, ok := decl.Body.List[0].(*ast.ReturnStmt)
	if !ok || len(ret.Results) != 1 {
		return "", false
	}
	hasLit := false
	ast.Inspect(ret.Results[0], func(n ast.Node) bool {
		if _, ok := n.(*ast.FuncLit); ok {
			hasLit = true
		}
		return !hasLit
	})
	if hasLit {
		return "", false
	}
	tinfo := target.Pkg.TypesInfo
	var bound []types.Object
	i := 0
	for _, f := range decl.Type.Params.List {
		if _, variadic := f.Type.(*ast.Ellipsis); variadic {
			return "", false
		}
		for _, n := range f.Names {
			o := tinfo.Defs[n]
			if o == nil || i >= len(call.Args) {
				return "", false
			}
			if _, dup := st.env[o]; dup {
				return "", false
			}
			st.env[o] = w.canon(call.Args[i], st, c)
			bound = append(bound, o)
			i++
		}
		if len(f.Names) == 0 {
			i++
		}
	}
	w.exprDepth++
	out := w.canon(ret.Results[0], st, &ctl{fn: target, info: tinfo})
	w.exprDepth--
	for _, o := range bound {
		delete(st.env, o)
	}
	return out, true
}

func onStack(stack []*FuncInfo, f *FuncInfo) bool {
	for _, g := range stack {
		if g == f {
			return true
		}
	}
	return false
}

// constructedError recognises the canonical value of an error built on the spot by a constructor that never
// returns nil: the typed-error constructors of onos-lib-go, fmt.Errorf, errors.New, status.Error(f).
func constructedError(s string) bool {
	in := s
	if strings.HasPrefix(s, "err(") && strings.HasSuffix(s, ")") {
		in = s[4 : len(s)-1]
	}
	// errors.Status(e).Err() of a constructed typed error is the gRPC form of that error
	if strings.HasPrefix(in, "{errors.Status(") && strings.HasSuffix(in, ")}status.Status.Err()") {
		return constructedError(in[len("{errors.Status(") : len(in)-len(")}status.Status.Err()")])
	}
	for _, p := range []string{"errors.New", "fmt.Errorf(", "status.Errorf(", "status.Error("} {
		if strings.HasPrefix(in, p) {
			return true
		}
	}
	return false
}

// canonFormula reads a canonical boolean value back as a formula: "!x", "(a && b)", "(a || b)", "(a op b)" with a
// comparison operator; anything else is the atom `s == true`.
func canonFormula(s string) Formula {
	atom := func(s string) Formula {
		return FLit{Lit{L: s, R: "true", Mask: mEQ, RConst: constant.MakeBool(true)}}
	}
	if strings.HasPrefix(s, "!") && !strings.HasPrefix(s, "!=") {
		return FNot{canonFormula(strings.TrimPrefix(s, "!"))}
	}
	if len(s) < 2 || s[0] != '(' || matchingClose(s, 0) != len(s)-1 {
		return atom(s)
	}
	in := s[1 : len(s)-1]
	// split at the top-level operator (canon renders a binary expression as "(X op Y)")
	depth := 0
	for _, ops := range [][]string{{" || "}, {" && "}, {" == ", " != ", " <= ", " >= ", " < ", " > "}} {
		depth = 0
		for i := 0; i < len(in); i++ {
			switch in[i] {
			case '(', '[', '{':
				depth++
			case ')', ']', '}':
				depth--
			case '"':
				// skip a string literal
				for i++; i < len(in) && in[i] != '"'; i++ {
					if in[i] == '\\' {
						i++
					}
				}
			}
			if depth != 0 {
				continue
			}
			for _, op := range ops {
				if strings.HasPrefix(in[i:], op) {
					l, r := in[:i], in[i+len(op):]
					switch op {
					case " || ":
						return FOr([]Formula{canonFormula(l), canonFormula(r)})
					case " && ":
						return FAnd([]Formula{canonFormula(l), canonFormula(r)})
					}
					lit := Lit{L: l, R: r, Mask: opMask(strings.TrimSpace(op))}
					if r == "nil" {
						lit.RNil = true
					}
					if l == "nil" {
						lit = Lit{L: r, R: "nil", RNil: true, Mask: flipMask(lit.Mask)}
					}
					if lit.R == `""` {
						lit.RConst = constant.MakeString("")
					}
					return FLit{lit}
				}
			}
		}
	}
	return atom(s)
}

func matchingClose(s string, open int) int {
	depth := 0
	for i := open; i < len(s); i++ {
		switch s[i] {
		case '(':
			depth++
		case ')':
			depth--
			if depth == 0 {
				return i
			}
		}
	}
	return -1
}

func isPureBuiltin(name string) bool {
	switch name {
	case "len", "cap", "append", "make", "new", "delete", "close", "copy", "panic", "recover", "min", "max":
		return true
	}
	return false
}

func isInterfaceMethod(f *types.Func) bool {
	sig, ok := f.Type().(*types.Signature)
	if !ok || sig.Recv() == nil {
		return false
	}
	return types.IsInterface(sig.Recv().Type())
}

// ---------------------------------------------------------------------------------------------
// canonical expressions

func (w *Walker) varCanon(o types.Object, st *pstate) string {
	if v, ok := st.env[o]; ok {
		return v
	}
	if o.Pkg() != nil && o.Parent() == o.Pkg().Scope() {
		return pkgLabel(o.Pkg()) + "." + o.Name()
	}
	return "^" + o.Name()
}

func (w *Walker) typeStr(t types.Type) string {
	return types.TypeString(t, func(p *types.Package) string { return pkgLabel(p) })
}

// rawPath is the canonical, unversioned access path of a selector/index chain.
func (w *Walker) rawPath(e ast.Expr, st *pstate, c *ctl) string {
	e = ast.Unparen(e)
	switch x := e.(type) {
	case *ast.SelectorExpr:
		if sel := c.info.Selections[x]; sel != nil && sel.Kind() == types.FieldVal {
			return derefAddr(w.rawPath(x.X, st, c)) + "." + x.Sel.Name
		}
	case *ast.IndexExpr:
		if tv, ok := c.info.Types[x.X]; ok && !tv.IsType() {
			if _, isFn := tv.Type.Underlying().(*types.Signature); !isFn {
				base, idx := w.rawPath(x.X, st, c), w.canon(x.Index, st, c)
				// `for i := range xs { x := xs[i] … }` names the element the value form `for _, x := range xs` names
				if strings.HasPrefix(idx, "key(") && strings.HasSuffix(idx, ")") && stripVersion(idx[4:len(idx)-1]) == stripVersion(base) {
					return "elem(" + idx[4:len(idx)-1] + ")"
				}
				return base + "[" + idx + "]"
			}
		}
	case *ast.StarExpr:
		if b := w.rawPath(x.X, st, c); isAddrOfPath(b) {
			return b[1:]
		}
		return "*" + w.rawPath(x.X, st, c)
	case *ast.Ident:
		if obj := c.info.Uses[x]; obj != nil {
			if _, ok := obj.(*types.Var); ok {
				return stripVersion(w.varCanon(obj, st))
			}
		}
		if obj := c.info.Defs[x]; obj != nil {
			return stripVersion(w.varCanon(obj, st))
		}
	}
	return w.canon(e, st, c)
}

// isAddrOfPath reports whether a canonical string is the address of an access path (`&X.f.g`, what a local
// bound by `p := &X.f.g` stands for), as opposed to the address of a fresh composite literal (`&T{…}@k`).
func isAddrOfPath(s string) bool {
	if !strings.HasPrefix(s, "&") || len(s) < 2 || s[1] == '&' {
		return false
	}
	// a composite literal ends in '}' (plus its allocation and version suffixes); an access path never does
	t := s
	for {
		i := strings.LastIndexAny(t, "@#")
		if i < 0 || strings.Trim(t[i+1:], "0123456789") != "" {
			break
		}
		t = t[:i]
	}
	return !strings.HasSuffix(t, "}")
}

// derefAddr: a field selected through a pointer that is the address of a path is a field of that path
// ((&X.f).g is X.f.g), so that a local alias `p := &X.f` names the same storage as X.f.
func derefAddr(s string) string {
	if isAddrOfPath(s) {
		return s[1:]
	}
	return s
}

func stripVersion(s string) string {
	if i := strings.LastIndex(s, "#"); i >= 0 && !strings.ContainsAny(s[i:], ".)]") {
		return s[:i]
	}
	return s
}

func (w *Walker) version(path string, st *pstate) int {
	if len(st.ver) == 0 {
		return 0
	}
	n := 0
	for p, v := range st.ver {
		if p == path || (strings.HasPrefix(path, p) && len(path) > len(p) && (path[len(p)] == '.' || path[len(p)] == '[')) {
			n += v
		}
	}
	return n
}

func (w *Walker) versioned(path string, st *pstate) string {
	if v := w.version(path, st); v > 0 {
		return fmt.Sprintf("%s#%d", path, v)
	}
	return path
}

// canonAlloc is canon, except that allocations (make, new, composite literals) get a unique
// occurrence suffix so that two fresh maps are two values.
func (w *Walker) canonAlloc(e ast.Expr, st *pstate, c *ctl) string {
	s := w.canon(e, st, c)
	x := ast.Unparen(e)
	if u, ok := x.(*ast.UnaryExpr); ok && u.Op == token.AND {
		x = ast.Unparen(u.X)
	}
	switch y := x.(type) {
	case *ast.CompositeLit:
		// a struct value (not &T{}, not a map/slice) has no identity: two equal literals are equal values
		if _, isAddr := ast.Unparen(e).(*ast.UnaryExpr); !isAddr {
			if t := c.info.TypeOf(y); t != nil {
				if _, isStruct := t.Underlying().(*types.Struct); isStruct {
					return s
				}
			}
		}
		st.count["alloc"]++
		return fmt.Sprintf("%s@%d", s, st.count["alloc"])
	case *ast.CallExpr:
		if id, ok := ast.Unparen(y.Fun).(*ast.Ident); ok && (id.Name == "make" || id.Name == "new") {
			if _, isB := c.info.Uses[id].(*types.Builtin); isB {
				st.count["alloc"]++
				return fmt.Sprintf("%s@%d", s, st.count["alloc"])
			}
		}
	}
	return s
}

func (w *Walker) canon(e ast.Expr, st *pstate, c *ctl) string {
	e = ast.Unparen(e)
	switch x := e.(type) {
	case *ast.Ident:
		obj := c.info.Uses[x]
		if obj == nil {
			obj = c.info.Defs[x]
		}
		switch o := obj.(type) {
		case *types.Const:
			if o.Pkg() == nil {
				return o.Name()
			}
			if o.Parent() != o.Pkg().Scope() {
				return o.Val().ExactString()
			}
			return pkgLabel(o.Pkg()) + "." + o.Name()
		case *types.Nil:
			return "nil"
		case *types.Var:
			if cst := st.consts[o]; cst != nil {
				if cst.Pkg() == nil {
					return cst.Name()
				}
				return pkgLabel(cst.Pkg()) + "." + cst.Name()
			}
			v := w.varCanon(o, st)
			if strings.HasPrefix(v, "?") || strings.HasPrefix(v, "^") {
				return v
			}
			if n := st.ver[stripVersion(v)]; n > 0 && !strings.Contains(v, "#") {
				// the collection this variable names was written through an index expression
				return fmt.Sprintf("%s#%d", v, n)
			}
			return v
		case *types.Func:
			return ShortFuncName(o)
		case *types.TypeName:
			return w.typeStr(o.Type())
		case *types.Builtin:
			return o.Name()
		case *types.PkgName:
			return o.Imported().Name()
		}
		return x.Name
	case *ast.BasicLit:
		return x.Value
	case *ast.SelectorExpr:
		if sel := c.info.Selections[x]; sel != nil {
			if sel.Kind() == types.FieldVal {
				return w.versioned(w.rawPath(x, st, c), st)
			}
			// method value
			return "{" + w.canon(x.X, st, c) + "}" + x.Sel.Name
		}
		// qualified identifier
		return w.canon(x.Sel, st, c)
	case *ast.IndexExpr:
		if tv, ok := c.info.Types[x.X]; ok && !tv.IsType() {
			if _, isFn := tv.Type.Underlying().(*types.Signature); !isFn {
				return w.versioned(w.rawPath(x, st, c), st)
			}
		}
		return w.canon(x.X, st, c)
	case *ast.StarExpr:
		if b := w.rawPath(x.X, st, c); isAddrOfPath(b) {
			return w.versioned(b[1:], st)
		}
		return "*" + w.canon(x.X, st, c)
	case *ast.UnaryExpr:
		if x.Op == token.ARROW {
			return "recv(" + w.canon(x.X, st, c) + ")"
		}
		return x.Op.String() + w.canon(x.X, st, c)
	case *ast.BinaryExpr:
		if tv, ok := c.info.Types[x]; ok && tv.Value != nil {
			return tv.Value.ExactString()
		}
		return "(" + w.canon(x.X, st, c) + " " + x.Op.String() + " " + w.canon(x.Y, st, c) + ")"
	case *ast.TypeAssertExpr:
		if x.Type == nil {
			return w.canon(x.X, st, c) + ".(type)"
		}
		return w.canon(x.X, st, c) + ".(" + w.typeStr(c.info.TypeOf(x.Type)) + ")"
	case *ast.SliceExpr:
		s := w.canon(x.X, st, c) + "["
		if x.Low != nil {
			s += w.canon(x.Low, st, c)
		}
		s += ":"
		if x.High != nil {
			s += w.canon(x.High, st, c)
		}
		if x.Max != nil {
			s += ":" + w.canon(x.Max, st, c)
		}
		return s + "]"
	case *ast.CompositeLit:
		t := c.info.TypeOf(x)
		var parts []string
		for _, el := range x.Elts {
			if kv, ok := el.(*ast.KeyValueExpr); ok {
				key := ""
				if id, ok := kv.Key.(*ast.Ident); ok && isStructType(t) {
					key = id.Name
				} else {
					key = w.canon(kv.Key, st, c)
				}
				parts = append(parts, key+":"+w.canon(kv.Value, st, c))
			} else {
				parts = append(parts, w.canon(el, st, c))
			}
		}
		if isStructType(t) {
			sort.Strings(parts)
		}
		ts := "?"
		if t != nil {
			ts = w.typeStr(t)
		}
		return ts + "{" + strings.Join(parts, ",") + "}"
	case *ast.FuncLit:
		return fmt.Sprintf("func@%d", w.P.Fset.Position(x.Pos()).Line)
	case *ast.CallExpr:
		if tv, ok := c.info.Types[x.Fun]; ok && tv.IsType() {
			// conversion
			if len(x.Args) == 1 {
				if tv2, ok := c.info.Types[x]; ok && tv2.Value != nil {
					return tv2.Value.ExactString()
				}
				return w.typeStr(tv.Type) + "(" + w.canon(x.Args[0], st, c) + ")"
			}
		}
		var args []string
		for _, a := range x.Args {
			if t := c.info.TypeOf(a); t != nil && isContext(t) {
				continue
			}
			args = append(args, w.canon(a, st, c))
		}
		callee := w.calleeOf(x, c)
		name := ""
		recv := ""
		if s, ok := w.exprHelper(x, callee, st, c); ok {
			return s
		}
		if callee != nil {
			name = ShortFuncName(callee)
			if sel, ok := ast.Unparen(x.Fun).(*ast.SelectorExpr); ok {
				if s := c.info.Selections[sel]; s != nil {
					r := w.canon(sel.X, st, c)
					if !strings.HasPrefix(r, "$recv.") && r != "$recv" {
						recv = "{" + r + "}"
					} else if r == "$recv" {
						recv = ""
					}
				}
			}
		} else {
			name = w.canon(x.Fun, st, c)
		}
		return recv + name + "(" + strings.Join(args, ",") + ")"
	case *ast.KeyValueExpr:
		return w.canon(x.Key, st, c) + ":" + w.canon(x.Value, st, c)
	case *ast.ArrayType, *ast.MapType, *ast.ChanType, *ast.StructType, *ast.InterfaceType, *ast.FuncType:
		if t := c.info.TypeOf(e); t != nil {
			return w.typeStr(t)
		}
	case *ast.Ellipsis:
		return "..."
	}
	return fmt.Sprintf("<%T>", e)
}

func isStructType(t types.Type) bool {
	if t == nil {
		return false
	}
	if p, ok := t.Underlying().(*types.Pointer); ok {
		t = p.Elem()
	}
	_, ok := t.Underlying().(*types.Struct)
	return ok
}

func min(a, b int) int {
	if a < b {
		return a
	}
	return b
}

// stmtSites emits EvSite events for the expressions evaluated by the statement's own header
// (nested statements emit their own when they are walked).
func (w *Walker) stmtSites(s ast.Stmt, st *pstate, c *ctl) *pstate {
	var exprs []ast.Expr
	var lhs []ast.Expr
	switch x := s.(type) {
	case *ast.ExprStmt:
		exprs = append(exprs, x.X)
	case *ast.AssignStmt:
		exprs = append(exprs, x.Rhs...)
		lhs = x.Lhs
	case *ast.ReturnStmt:
		exprs = append(exprs, x.Results...)
	case *ast.IncDecStmt:
		exprs = append(exprs, x.X)
	case *ast.SendStmt:
		exprs = append(exprs, x.Chan, x.Value)
	case *ast.GoStmt:
		exprs = append(exprs, x.Call)
	case *ast.DeferStmt:
		exprs = append(exprs, x.Call)
	case *ast.DeclStmt:
		if gd, ok := x.Decl.(*ast.GenDecl); ok {
			for _, sp := range gd.Specs {
				if vs, ok := sp.(*ast.ValueSpec); ok {
					exprs = append(exprs, vs.Values...)
				}
			}
		}
	case *ast.RangeStmt:
		exprs = append(exprs, x.X)
	}
	for _, e := range exprs {
		st = w.exprSites(e, nil, false, st, c)
	}
	for _, e := range lhs {
		st = w.exprSites(e, nil, true, st, c)
	}
	return st
}

// headSites emits the sites of a header expression of if/switch/for (after the init statement).
func (w *Walker) headSites(e ast.Expr, st *pstate, c *ctl) *pstate {
	if !w.Sites || e == nil {
		return st
	}
	return w.exprSites(e, nil, false, st, c)
}

// exprSites walks an expression in evaluation order.
func (w *Walker) exprSites(e ast.Expr, local []Lit, isLHS bool, st *pstate, c *ctl) *pstate {
	if e == nil {
		return st
	}
	switch x := e.(type) {
	case *ast.ParenExpr:
		return w.exprSites(x.X, local, isLHS, st, c)
	case *ast.FuncLit:
		return st
	case *ast.BinaryExpr:
		if x.Op == token.LAND || x.Op == token.LOR {
			st = w.exprSites(x.X, local, false, st, c)
			f := w.formula(x.X, st, c)
			if d, ok := DNF(f, x.Op == token.LOR); ok && len(d) == 1 {
				local = append(append([]Lit{}, local...), d[0]...)
			}
			return w.exprSites(x.Y, local, false, st, c)
		}
		st = w.exprSites(x.X, local, false, st, c)
		return w.exprSites(x.Y, local, false, st, c)
	case *ast.UnaryExpr:
		if x.Op == token.AND {
			// &x.f computes an address: x is still dereferenced when it is a pointer
			return w.exprSites(x.X, local, true, st, c)
		}
		return w.exprSites(x.X, local, false, st, c)
	case *ast.StarExpr:
		st = w.exprSites(x.X, local, false, st, c)
		if tv, ok := c.info.Types[x]; ok && tv.IsType() {
			return st
		}
		return w.site("deref", x.X, nil, x, local, st, c)
	case *ast.SelectorExpr:
		if sel, ok := c.info.Selections[x]; ok {
			st = w.exprSites(x.X, local, false, st, c)
			if sel.Kind() == types.FieldVal {
				if t := c.info.TypeOf(x.X); t != nil {
					if _, isPtr := t.Underlying().(*types.Pointer); isPtr {
						return w.site("deref", x.X, nil, x, local, st, c)
					}
				}
			}
			return st
		}
		return st // qualified identifier
	case *ast.IndexExpr:
		st = w.exprSites(x.X, local, false, st, c)
		st = w.exprSites(x.Index, local, false, st, c)
		t := c.info.TypeOf(x.X)
		if t == nil {
			return st
		}
		if tv, ok := c.info.Types[x.X]; ok && tv.IsType() {
			return st // generic instantiation
		}
		switch u := t.Underlying().(type) {
		case *types.Map:
			if isLHS {
				return w.site("mapwrite", x.X, []ast.Expr{x.Index}, x, local, st, c)
			}
			return st
		case *types.Pointer:
			_ = u
			return w.site("index", x.X, []ast.Expr{x.Index}, x, local, st, c)
		case *types.Slice, *types.Array, *types.Basic:
			return w.site("index", x.X, []ast.Expr{x.Index}, x, local, st, c)
		}
		return st
	case *ast.SliceExpr:
		st = w.exprSites(x.X, local, false, st, c)
		var idx []ast.Expr
		for _, b := range []ast.Expr{x.Low, x.High, x.Max} {
			if b != nil {
				st = w.exprSites(b, local, false, st, c)
				idx = append(idx, b)
			}
		}
		if len(idx) == 0 {
			return st
		}
		return w.site("slice", x.X, idx, x, local, st, c)
	case *ast.TypeAssertExpr:
		st = w.exprSites(x.X, local, false, st, c)
		if x.Type == nil {
			return st
		}
		if tv, ok := c.info.Types[x]; ok {
			if _, isTuple := tv.Type.(*types.Tuple); isTuple {
				return st // comma-ok form
			}
		}
		return w.site("assert", x.X, nil, x, local, st, c)
	case *ast.CallExpr:
		if tv, ok := c.info.Types[x.Fun]; !ok || !tv.IsType() {
			st = w.exprSites(x.Fun, local, false, st, c)
		}
		for _, a := range x.Args {
			st = w.exprSites(a, local, false, st, c)
		}
		return st
	case *ast.CompositeLit:
		for _, el := range x.Elts {
			if kv, ok := el.(*ast.KeyValueExpr); ok {
				if _, isStruct := c.info.TypeOf(x).Underlying().(*types.Struct); !isStruct {
					st = w.exprSites(kv.Key, local, false, st, c)
				}
				st = w.exprSites(kv.Value, local, false, st, c)
			} else {
				st = w.exprSites(el, local, false, st, c)
			}
		}
		return st
	case *ast.KeyValueExpr:
		return w.exprSites(x.Value, local, false, st, c)
	}
	return st
}

func (w *Walker) site(kind string, x ast.Expr, idx []ast.Expr, node ast.Expr, local []Lit, st *pstate, c *ctl) *pstate {
	ev := Event{Kind: EvSite, Pos: node.Pos(), Node: node, SiteKind: kind, SiteX: w.canon(x, st, c), SiteExpr: x, SiteLocal: local}
	if t := c.info.TypeOf(x); t != nil {
		ev.SiteType = w.typeStr(t)
	}
	if f := FieldID(c.info, x); f != "" {
		ev.SiteField = f
	} else {
		ev.SiteField = w.aliasFieldID(x, st, c)
	}
	for _, i := range idx {
		ev.SiteIdx = append(ev.SiteIdx, w.canon(i, st, c))
	}
	return w.emit(st, ev)
}
