package engine

import (
	"fmt"
	"go/ast"
	"go/token"
	"go/types"
	"sort"
	"strings"

	"golang.org/x/tools/go/packages"
)

// Analysis caches the enumerated paths per package.
type Analysis struct {
	P           *Prog
	paths       map[string][]*Path
	Unsupported map[string]string
	FuncsWalked int
	PathsTotal  int
	Overflow    []string // roots whose path budget was exceeded
}

// NewAnalysis creates an analysis over a loaded program.
func NewAnalysis(p *Prog) *Analysis {
	return &Analysis{P: p, paths: map[string][]*Path{}, Unsupported: map[string]string{}}
}

// inlineablePositions returns the call expressions of f's body that the walker would inline
// (statement position, sole right-hand side, sole return value).
func inlineablePositions(body ast.Node) map[*ast.CallExpr]bool {
	out := map[*ast.CallExpr]bool{}
	mark := func(e ast.Expr) {
		if c, ok := ast.Unparen(e).(*ast.CallExpr); ok {
			out[c] = true
		}
	}
	ast.Inspect(body, func(n ast.Node) bool {
		switch x := n.(type) {
		case *ast.ExprStmt:
			mark(x.X)
		case *ast.AssignStmt:
			if len(x.Rhs) == 1 && (x.Tok == token.ASSIGN || x.Tok == token.DEFINE) {
				mark(x.Rhs[0])
			}
		case *ast.ValueSpec:
			if len(x.Values) == 1 {
				mark(x.Values[0])
			}
		case *ast.ReturnStmt:
			if len(x.Results) == 1 {
				mark(x.Results[0])
			}
		}
		return true
	})
	return out
}

// Roots returns the functions of pkg that are enumerated as roots: those not exclusively called
// from inlineable positions of other functions of the same package.
func (a *Analysis) Roots(pkg *packages.Package) []*FuncInfo {
	funcs := a.P.FuncsOf(pkg)
	inl := map[*types.Func]int{}
	other := map[*types.Func]int{}
	for _, f := range funcs {
		pos := inlineablePositions(f.Decl.Body)
		calleeIdents := map[*ast.Ident]bool{}
		for c := range pos {
			var id *ast.Ident
			switch fn := ast.Unparen(c.Fun).(type) {
			case *ast.Ident:
				id = fn
			case *ast.SelectorExpr:
				id = fn.Sel
			}
			if id != nil {
				calleeIdents[id] = true
			}
		}
		ast.Inspect(f.Decl.Body, func(n ast.Node) bool {
			id, ok := n.(*ast.Ident)
			if !ok {
				return true
			}
			fn, ok := pkg.TypesInfo.Uses[id].(*types.Func)
			if !ok || a.P.Funcs[fn] == nil || a.P.Funcs[fn].Pkg != pkg || fn == f.Obj {
				return true
			}
			if calleeIdents[id] && !insideFuncLit(f.Decl.Body, id.Pos()) {
				inl[fn]++
			} else {
				other[fn]++
			}
			return true
		})
	}
	var roots []*FuncInfo
	for _, f := range funcs {
		if inl[f.Obj] > 0 && other[f.Obj] == 0 {
			continue
		}
		roots = append(roots, f)
	}
	return roots
}

func insideFuncLit(body ast.Node, pos token.Pos) bool {
	in := false
	ast.Inspect(body, func(n ast.Node) bool {
		if fl, ok := n.(*ast.FuncLit); ok && fl.Pos() <= pos && pos < fl.End() {
			in = true
		}
		return !in
	})
	return in
}

// PathOpts restricts the enumeration of a package.
type PathOpts struct {
	Roots    []string // enumerate only roots whose short name ends with one of these ("" = all)
	NoInline bool     // treat every call as opaque
	Inline   []string // with NoInline: callees (short name suffixes) that are inlined nevertheless
	MaxPaths int
	Sites    bool // emit EvSite events (constructs that can panic)
	Exact    bool // Roots are exact short names
}

func (o PathOpts) key() string {
	return fmt.Sprintf("%v|%v|%v|%d|%v|%v", o.Roots, o.NoInline, o.Inline, o.MaxPaths, o.Sites, o.Exact)
}

// Paths enumerates (once) all paths of the package given relative to the module root.
func (a *Analysis) Paths(rel string) ([]*Path, error) { return a.PathsOpt(rel, PathOpts{}) }

// PathsOpt enumerates the paths of selected roots of a package.
func (a *Analysis) PathsOpt(rel string, opt PathOpts) ([]*Path, error) {
	ckey := rel + "|" + opt.key()
	if p, ok := a.paths[ckey]; ok {
		return p, nil
	}
	pkg, err := a.P.MustPkg(rel)
	if err != nil {
		return nil, err
	}
	w := NewWalker(a.P)
	if opt.MaxPaths > 0 {
		w.MaxPaths = opt.MaxPaths
	}
	w.Sites = opt.Sites
	if opt.NoInline {
		w.Inline = func(caller, callee *FuncInfo) bool {
			if caller.Pkg != callee.Pkg {
				return false
			}
			for _, n := range opt.Inline {
				if strings.HasSuffix(callee.Name(), n) {
					return true
				}
			}
			return IsNewHelper(callee)
		}
	}
	wantRoot := func(f *FuncInfo) bool {
		if len(opt.Roots) == 0 {
			return true
		}
		for _, r := range opt.Roots {
			if (opt.Exact && f.Name() == r) || (!opt.Exact && strings.HasSuffix(f.Name(), r)) {
				return true
			}
		}
		return false
	}
	var all []*Path
	covered := map[*FuncInfo]bool{}
	walk := func(f *FuncInfo) error {
		ps, err := w.EnumerateFunc(f)
		if err != nil {
			// too many paths: the function (and what it inlines) is outside what the walker decides;
			// obligations anchored in it come out undecided
			a.Unsupported[f.Name()] = err.Error()
			a.Overflow = append(a.Overflow, f.Name())
			covered[f] = true
			return nil
		}
		covered[f] = true
		for _, p := range ps {
			for i := range p.Events {
				if p.Events[i].Kind == EvEnter {
					covered[p.Events[i].Fn] = true
				}
			}
		}
		all = append(all, ps...)
		return nil
	}
	if len(opt.Roots) > 0 {
		for _, f := range a.P.FuncsOf(pkg) {
			if wantRoot(f) {
				if err := walk(f); err != nil {
					return nil, err
				}
			}
		}
	} else {
		for _, f := range a.Roots(pkg) {
			if err := walk(f); err != nil {
				return nil, err
			}
		}
		// anything not reached (inlining depth, recursion) is enumerated on its own
		for _, f := range a.P.FuncsOf(pkg) {
			if !covered[f] {
				if err := walk(f); err != nil {
					return nil, err
				}
			}
		}
	}
	for i := 0; i < len(w.FuncLits); i++ {
		ps, err := w.EnumerateLit(w.FuncLits[i])
		if err != nil {
			a.Unsupported[w.FuncLits[i].Owner.Name()+"$lit"] = err.Error()
			a.Overflow = append(a.Overflow, w.FuncLits[i].Owner.Name()+"$lit")
			continue
		}
		all = append(all, ps...)
	}
	for k, v := range w.Unsupported {
		a.Unsupported[k] = v
	}
	a.FuncsWalked += len(covered) + len(w.FuncLits)
	a.PathsTotal += len(all)
	a.paths[ckey] = all
	return all, nil
}

// SiteRef identifies an event on a path.
type SiteRef struct {
	Path *Path
	Idx  int
}

// Ev returns the event.
func (s SiteRef) Ev() *Event { return &s.Path.Events[s.Idx] }

// Site groups all path occurrences of one source construct reached through one inlining stack.
type Site struct {
	Key  string
	Refs []SiteRef
}

// Ev returns a representative event.
func (s *Site) Ev() *Event { return s.Refs[0].Ev() }

// FindSites groups the events that match.
func FindSites(paths []*Path, match func(p *Path, i int) bool) []*Site {
	idx := map[string]*Site{}
	var order []string
	for _, p := range paths {
		for i := range p.Events {
			if !match(p, i) {
				continue
			}
			e := &p.Events[i]
			key := fmt.Sprintf("%d|%d|%s|%s", e.Pos, e.Kind, e.Stack, e.Field)
			s := idx[key]
			if s == nil {
				s = &Site{Key: key}
				idx[key] = s
				order = append(order, key)
			}
			s.Refs = append(s.Refs, SiteRef{p, i})
		}
	}
	out := make([]*Site, 0, len(order))
	for _, k := range order {
		out = append(out, idx[k])
	}
	sort.SliceStable(out, func(i, j int) bool { return out[i].Ev().Pos < out[j].Ev().Pos })
	return out
}

func loopPrefix(condLoops, siteLoops string) bool {
	if condLoops == "" {
		return true
	}
	return siteLoops == condLoops || strings.HasPrefix(siteLoops, condLoops+"/")
}

// scopeBefore returns the indexes of the events before idx that are still in scope: everything
// except what happened inside a loop that was closed (LoopExit seen) before idx. Events of a loop
// that was left by returning from the function that contains it stay in scope: they are facts
// about the iteration that returned.
func scopeBefore(p *Path, idx int) []int {
	type open struct {
		node interface{}
		n    int
	}
	var stack []open
	var out []int
	for i := 0; i < idx && i < len(p.Events); i++ {
		e := &p.Events[i]
		switch e.Kind {
		case EvLoopEnter:
			out = append(out, i)
			stack = append(stack, open{e.Node, len(out)})
			continue
		case EvLoopExit:
			for len(stack) > 0 {
				top := stack[len(stack)-1]
				stack = stack[:len(stack)-1]
				if top.node == interface{}(e.Node) {
					out = out[:top.n]
					break
				}
			}
		}
		out = append(out, i)
	}
	return out
}

// CondsBefore returns the literals assumed on the path before event idx, leaving out those
// assumed inside loops that were closed before the event.
func CondsBefore(p *Path, idx int) []Lit {
	var out []Lit
	for _, i := range scopeBefore(p, idx) {
		if e := &p.Events[i]; e.Kind == EvCond {
			out = append(out, e.Lit)
		}
	}
	return out
}

// EventsBefore returns the events before idx that are still in scope (not inside closed loops).
func EventsBefore(p *Path, idx int) []*Event {
	var out []*Event
	for _, i := range scopeBefore(p, idx) {
		out = append(out, &p.Events[i])
	}
	return out
}

// FuncChain renders the inlining chain of an event: root > callee > callee.
func FuncChain(p *Path, idx int) string {
	var chain []string
	chain = append(chain, p.Root.Name())
	depth := 0
	var stack []string
	for i := 0; i <= idx && i < len(p.Events); i++ {
		e := &p.Events[i]
		switch e.Kind {
		case EvEnter:
			stack = append(stack, e.Fn.Name())
			depth++
		case EvLeave:
			if len(stack) > 0 {
				stack = stack[:len(stack)-1]
			}
		}
	}
	chain = append(chain, stack...)
	if p.Lit != nil {
		chain[0] += "$lit"
	}
	return strings.Join(chain, " > ")
}

// DescribeEvent renders an event for reports.
func (a *Analysis) DescribeEvent(e *Event) string {
	switch e.Kind {
	case EvCall, EvGo, EvDefer:
		n := e.CalleeName
		if n == "" {
			n = e.Canon
		}
		pre := ""
		if e.Kind == EvGo {
			pre = "go "
		} else if e.Kind == EvDefer {
			pre = "defer "
		} else if e.Deferred {
			pre = "deferred "
		}
		r := ""
		if e.Recv != "" && !strings.HasPrefix(e.Recv, "$recv") {
			r = "{" + e.Recv + "}"
		}
		return fmt.Sprintf("%scall %s%s(%s)", pre, r, n, strings.Join(e.Args, ", "))
	case EvWrite:
		f := e.Field
		if f == "" {
			f = "local"
		}
		return fmt.Sprintf("write %s %s %s  [%s]", e.LHS, e.Op, e.RHS, f)
	case EvCond:
		return "assume " + e.Lit.String()
	case EvReturn:
		return "return " + strings.Join(e.Results, ", ")
	case EvLeave:
		return "leave " + e.Fn.Name() + " -> " + strings.Join(e.Results, ", ")
	case EvEnter:
		return "enter " + e.Fn.Name()
	case EvLoopEnter:
		return "loop over " + e.Range
	case EvLoopExit:
		return "loop exit"
	case EvSend:
		s := "send " + e.Chan + " <- " + e.RHS
		if e.InSelect != nil {
			s += " (select)"
		}
		return s
	case EvRecv:
		s := "recv <-" + e.Chan
		if e.InSelect != nil {
			s += " (select)"
		}
		return s
	case EvBranch:
		if e.Tok == token.FOR {
			return "loop-back"
		}
		return e.Tok.String()
	}
	return e.Kind.String()
}

// DumpPath renders a path.
func (a *Analysis) DumpPath(p *Path) string {
	var b strings.Builder
	name := p.Root.Name()
	if p.Lit != nil {
		name += fmt.Sprintf("$lit@%s", a.P.Pos(p.Lit.Pos()))
	}
	fmt.Fprintf(&b, "PATH %s\n", name)
	for i := range p.Events {
		e := &p.Events[i]
		if e.Kind == EvWrite && e.Local != nil {
			continue
		}
		fmt.Fprintf(&b, "  %-28s %s\n", a.P.Pos(e.Pos), a.DescribeEvent(e))
	}
	return b.String()
}

// ShareCache copies into a the cached paths of b for every package except those listed (given
// relative to the module root).
func (a *Analysis) ShareCache(b *Analysis, except ...string) {
	for k, v := range b.paths {
		rel := k[:strings.Index(k, "|")]
		skip := false
		for _, e := range except {
			if rel == e {
				skip = true
			}
		}
		if !skip {
			a.paths[k] = v
		}
	}
}

// AddrOnlySelected reports whether the address expression u (somewhere inside root) is bound to a local
// variable (`v := &x.f`) whose every other use is the base of a field selection `v.g`. Such a pointer never
// leaves the function: it is a name for x.f, reads and writes of x.f.g through it are visible as what they
// are (the walker resolves the alias, field identities come from the types), and taking it is no write.
func AddrOnlySelected(info *types.Info, root ast.Node, u *ast.UnaryExpr) bool {
	var obj types.Object
	parent := map[ast.Node]ast.Node{}
	var stack []ast.Node
	ast.Inspect(root, func(n ast.Node) bool {
		if n == nil {
			stack = stack[:len(stack)-1]
			return true
		}
		if len(stack) > 0 {
			parent[n] = stack[len(stack)-1]
		}
		stack = append(stack, n)
		return true
	})
	var n ast.Node = u
	for {
		p, ok := parent[n].(*ast.ParenExpr)
		if !ok {
			break
		}
		n = p
	}
	as, ok := parent[n].(*ast.AssignStmt)
	if !ok || len(as.Lhs) != len(as.Rhs) {
		return false
	}
	for i, r := range as.Rhs {
		if r == n {
			if id, ok := as.Lhs[i].(*ast.Ident); ok {
				if obj = info.Defs[id]; obj == nil {
					obj = info.Uses[id]
				}
			}
		}
	}
	v, ok := obj.(*types.Var)
	if !ok || v.IsField() || v.Parent() == nil || (v.Pkg() != nil && v.Parent() == v.Pkg().Scope()) {
		return false
	}
	if v.Pos() < root.Pos() || v.Pos() >= root.End() {
		return false // declared outside root: it has uses this scan does not see
	}
	only := true
	ast.Inspect(root, func(x ast.Node) bool {
		id, ok := x.(*ast.Ident)
		if !ok || info.Uses[id] != obj {
			return true
		}
		sel, isSel := parent[id].(*ast.SelectorExpr)
		if !isSel || sel.X != id {
			only = false
			return true
		}
		if s := info.Selections[sel]; s == nil || s.Kind() != types.FieldVal {
			only = false
		}
		return true
	})
	return only
}
