package engine

import (
	"fmt"
	"go/constant"
	"go/token"
	"regexp"
	"sort"
	"strings"
)

// Aliases maps short names used in obligation tables to canonical expressions. A definition that
// starts with "call:" names the result of an opaque interface-method call (a symbol); any other
// definition is a plain expression. Definitions refer to other aliases as @NAME.
type Aliases struct {
	P     *Prog
	defs  map[string]string
	order []string
	exp   map[string]string
}

// NewAliases builds an alias table from name, definition pairs.
func NewAliases(p *Prog, pairs ...string) *Aliases {
	a := &Aliases{P: p, defs: map[string]string{}, exp: map[string]string{}}
	for i := 0; i+1 < len(pairs); i += 2 {
		a.defs[pairs[i]] = pairs[i+1]
		a.order = append(a.order, pairs[i])
	}
	return a
}

var aliasRe = regexp.MustCompile(`@[A-Za-z][A-Za-z0-9_]*`)

// Expand replaces @NAME references by their canonical form.
func (a *Aliases) Expand(s string) string {
	return aliasRe.ReplaceAllStringFunc(s, func(ref string) string {
		return a.Resolve(ref[1:])
	})
}

// Resolve returns the canonical form of an alias.
func (a *Aliases) Resolve(name string) string {
	if v, ok := a.exp[name]; ok {
		return v
	}
	d, ok := a.defs[name]
	if !ok {
		return "@UNDEFINED:" + name
	}
	a.exp[name] = "@CYCLE:" + name
	var v string
	if strings.HasPrefix(d, "call:") {
		v = a.P.Sym(a.Expand(strings.TrimPrefix(d, "call:")))
	} else {
		v = a.Expand(d)
	}
	a.exp[name] = v
	return v
}

// Names returns canonical form -> alias name, for rendering.
func (a *Aliases) Names() map[string]string {
	out := map[string]string{}
	if a == nil {
		return out
	}
	for _, n := range a.order {
		v := a.Resolve(n)
		if strings.HasPrefix(v, "§") && len(v) == len("§")+6 {
			out[v] = n
		}
	}
	return out
}

// Render abbreviates a canonical string for humans: symbols become alias names or ⟨definitions⟩,
// and plain-expression aliases are folded back, longest first.
func (a *Aliases) Render(s string) string {
	if a == nil {
		return s
	}
	type kv struct{ k, v string }
	var plain []kv
	for _, n := range a.order {
		v := a.Resolve(n)
		if !(strings.HasPrefix(v, "§") && len(v) == len("§")+6) && len(v) > len(n)+1 {
			plain = append(plain, kv{v, n})
		}
	}
	sort.Slice(plain, func(i, j int) bool { return len(plain[i].k) > len(plain[j].k) })
	for _, p := range plain {
		s = strings.ReplaceAll(s, p.k, p.v)
	}
	s = a.P.Render(s, a.Names())
	for _, p := range plain {
		s = strings.ReplaceAll(s, a.P.Render(p.k, a.Names()), p.v)
	}
	return s
}

// Pseudo is a path predicate usable inside clauses: #ok(callee), #called(callee), #wrote(Field=RHS).
type Pseudo struct {
	Kind string
	Arg  string
}

// FPseudo is a clause leaf evaluated against the events of the path before the site.
type FPseudo struct{ P Pseudo }

func (f FPseudo) fstr() string { return "#" + f.P.Kind + "(" + f.P.Arg + ")" }

// ParseClause parses a clause of the obligation language:
//
//	clause := or ; or := and ('||' and)* ; and := unary ('&&' unary)* ;
//	unary := '!' unary | '(' clause ')' | '#'kind'('arg')' | operand (cmp operand)?
//
// Operands are canonical expressions (with @ALIAS references); their own parentheses are balanced
// and never contain a top-level boolean operator.
func ParseClause(s string, al *Aliases, p *Prog) (Formula, error) {
	s = strings.TrimSpace(s)
	if s == "" || s == "true" {
		return FConst(true), nil
	}
	if parts := splitTop(s, "||"); len(parts) > 1 {
		var or FOr
		for _, x := range parts {
			f, err := ParseClause(x, al, p)
			if err != nil {
				return nil, err
			}
			or = append(or, f)
		}
		return or, nil
	}
	if parts := splitTop(s, "&&"); len(parts) > 1 {
		var and FAnd
		for _, x := range parts {
			f, err := ParseClause(x, al, p)
			if err != nil {
				return nil, err
			}
			and = append(and, f)
		}
		return and, nil
	}
	if strings.HasPrefix(s, "!") && !strings.HasPrefix(s, "!=") {
		rest := strings.TrimSpace(s[1:])
		if strings.HasPrefix(rest, "(") && matchingParen(rest, 0) == len(rest)-1 || strings.HasPrefix(rest, "#") || strings.HasPrefix(rest, "!") {
			f, err := ParseClause(rest, al, p)
			if err != nil {
				return nil, err
			}
			return FNot{f}, nil
		}
		// negated boolean atom
		f, err := ParseClause(rest, al, p)
		if err != nil {
			return nil, err
		}
		return FNot{f}, nil
	}
	if strings.HasPrefix(s, "(") && matchingParen(s, 0) == len(s)-1 {
		inner := s[1 : len(s)-1]
		if hasTopBool(inner) || hasTopCmp(inner) {
			return ParseClause(inner, al, p)
		}
	}
	if strings.HasPrefix(s, "#") {
		i := strings.Index(s, "(")
		if i < 0 || !strings.HasSuffix(s, ")") {
			return nil, fmt.Errorf("bad pseudo literal %q", s)
		}
		arg := s[i+1 : len(s)-1]
		if al != nil {
			arg = al.Expand(arg)
		}
		return FPseudo{Pseudo{Kind: s[1:i], Arg: arg}}, nil
	}
	// comparison or atom
	if op, i := topCmp(s); i >= 0 {
		l := strings.TrimSpace(s[:i])
		r := strings.TrimSpace(s[i+len(op):])
		return MakeLit(l, op, r, al, p), nil
	}
	return MakeLit(s, "==", "true", al, p), nil
}

// MakeLit builds a normalised literal from clause text.
func MakeLit(l, op, r string, al *Aliases, p *Prog) Formula {
	if al != nil {
		l, r = al.Expand(l), al.Expand(r)
	}
	lit := Lit{L: l, R: r, Mask: opMask(op)}
	classify := func(s string) (constant.Value, bool) {
		if s == "nil" {
			return nil, true
		}
		if s == "true" || s == "false" {
			return constant.MakeBool(s == "true"), false
		}
		if len(s) > 0 && (s[0] == '"' || s[0] == '`') {
			return constant.MakeFromLiteral(s, token.STRING, 0), false
		}
		if len(s) > 0 && (s[0] >= '0' && s[0] <= '9' || s[0] == '-') {
			if v := constant.MakeFromLiteral(s, token.INT, 0); v.Kind() != constant.Unknown {
				return v, false
			}
		}
		if strings.HasPrefix(s, "*") || strings.Contains(s, "/") && !strings.ContainsAny(s, "(§$") && strings.HasPrefix(l, "type(") {
			return constant.MakeString(s), false
		}
		if p != nil {
			if c := p.LookupConst(s); c != nil {
				return c.Val(), false
			}
		}
		return nil, false
	}
	lc, lnil := classify(l)
	rc, rnil := classify(r)
	if strings.HasPrefix(l, "type(") {
		rc = constant.MakeString(r)
	}
	swap := false
	if (lc != nil || lnil) && !(rc != nil || rnil) {
		swap = true
	} else if lc == nil && !lnil && rc == nil && !rnil && l > r {
		swap = true
	}
	if swap {
		lit.L, lit.R = r, l
		rc, rnil = lc, lnil
		lit.Mask = flipMask(lit.Mask)
	}
	lit.RConst, lit.RNil = rc, rnil
	if p != nil && rc != nil {
		if c := p.LookupConst(lit.R); c != nil {
			lit.LType = c.Type()
		}
	}
	return FLit{lit}
}

func matchingParen(s string, open int) int {
	depth := 0
	inStr := byte(0)
	for i := open; i < len(s); i++ {
		ch := s[i]
		if inStr != 0 {
			if ch == '\\' {
				i++
			} else if ch == inStr {
				inStr = 0
			}
			continue
		}
		switch ch {
		case '"', '`':
			inStr = ch
		case '(', '[', '{':
			depth++
		case ')', ']', '}':
			depth--
			if depth == 0 {
				return i
			}
		}
	}
	return -1
}

// splitTop splits s at top-level occurrences of sep.
func splitTop(s, sep string) []string {
	var out []string
	depth := 0
	inStr := byte(0)
	last := 0
	for i := 0; i < len(s); i++ {
		ch := s[i]
		if inStr != 0 {
			if ch == '\\' {
				i++
			} else if ch == inStr {
				inStr = 0
			}
			continue
		}
		switch ch {
		case '"', '`':
			inStr = ch
		case '(', '[', '{':
			depth++
		case ')', ']', '}':
			depth--
		}
		if depth == 0 && strings.HasPrefix(s[i:], sep) {
			out = append(out, strings.TrimSpace(s[last:i]))
			last = i + len(sep)
			i += len(sep) - 1
		}
	}
	out = append(out, strings.TrimSpace(s[last:]))
	return out
}

func hasTopBool(s string) bool {
	return len(splitTop(s, "||")) > 1 || len(splitTop(s, "&&")) > 1
}

func hasTopCmp(s string) bool { _, i := topCmp(s); return i >= 0 }

// topCmp finds the top-level comparison operator of s.
func topCmp(s string) (string, int) {
	depth := 0
	inStr := byte(0)
	for i := 0; i < len(s); i++ {
		ch := s[i]
		if inStr != 0 {
			if ch == '\\' {
				i++
			} else if ch == inStr {
				inStr = 0
			}
			continue
		}
		switch ch {
		case '"', '`':
			inStr = ch
		case '(', '[', '{':
			depth++
		case ')', ']', '}':
			depth--
		}
		if depth != 0 {
			continue
		}
		for _, op := range []string{"==", "!=", "<=", ">=", "<", ">"} {
			if strings.HasPrefix(s[i:], op) {
				// "<-" (receive) and "->" are not comparisons
				if op == "<" && strings.HasPrefix(s[i:], "<-") {
					continue
				}
				if op == ">" && i > 0 && s[i-1] == '-' {
					continue
				}
				return op, i
			}
		}
	}
	return "", -1
}

// ResolvePseudos replaces the pseudo literals of f by constants, evaluated on the in-scope events
// before the site; conds are the path literals before the site.
func ResolvePseudos(f Formula, evs []*Event, conds []Lit) Formula {
	switch x := f.(type) {
	case FPseudo:
		return FConst(evalPseudo(x.P, evs, conds))
	case FAnd:
		out := make(FAnd, len(x))
		for i, y := range x {
			out[i] = ResolvePseudos(y, evs, conds)
		}
		return out
	case FOr:
		out := make(FOr, len(x))
		for i, y := range x {
			out[i] = ResolvePseudos(y, evs, conds)
		}
		return out
	case FNot:
		return FNot{ResolvePseudos(x.F, evs, conds)}
	}
	return f
}

// ResolveHistory replaces the history pseudo literals (#everFailed) of f, which speak about every event
// of the path before idx, closed loops included: "some call to the callee failed in some iteration" stays
// true after the loop is left although the literal itself is no longer a path condition.
func ResolveHistory(f Formula, p *Path, idx int) Formula {
	switch x := f.(type) {
	case FPseudo:
		if x.P.Kind != "everFailed" {
			return f
		}
		for i := 0; i < idx && i < len(p.Events); i++ {
			e := &p.Events[i]
			if e.Kind != EvCall || e.Deferred || e.CalleeName != x.P.Arg {
				continue
			}
			errv := "err(" + e.Canon + ")"
			for j := i + 1; j < idx && j < len(p.Events); j++ {
				if c := &p.Events[j]; c.Kind == EvCond && c.Lit.L == errv && c.Lit.RNil && c.Lit.Mask == mLT|mGT {
					return FConst(true)
				}
			}
		}
		return FConst(false)
	case FAnd:
		out := make(FAnd, len(x))
		for i, y := range x {
			out[i] = ResolveHistory(y, p, idx)
		}
		return out
	case FOr:
		out := make(FOr, len(x))
		for i, y := range x {
			out[i] = ResolveHistory(y, p, idx)
		}
		return out
	case FNot:
		return FNot{ResolveHistory(x.F, p, idx)}
	}
	return f
}

func evalPseudo(p Pseudo, evs []*Event, conds []Lit) bool {
	switch p.Kind {
	case "passed":
		// some earlier call to the callee after which the path went on (its error was nil, or was
		// classified and swallowed by a wrapper)
		for _, e := range evs {
			if e.Kind == EvCall && !e.Deferred && e.CalleeName == p.Arg {
				return true
			}
		}
	case "called":
		for _, e := range evs {
			if e.Kind == EvCall && !e.Deferred && e.CalleeName == p.Arg {
				return true
			}
		}
	case "ok":
		// some earlier call to the callee whose error result was tested nil on this path
		for _, e := range evs {
			if e.Kind != EvCall || e.Deferred || e.CalleeName != p.Arg {
				continue
			}
			want := "err(" + e.Canon + ")"
			for _, l := range conds {
				if l.L == want && l.RNil && l.Mask == mEQ {
					return true
				}
			}
		}
	case "okflag":
		// some earlier call to the callee whose boolean "ok" result was tested true
		for _, e := range evs {
			if e.Kind != EvCall || e.Deferred || e.CalleeName != p.Arg {
				continue
			}
			want := "ok(" + e.Canon + ")"
			for _, l := range conds {
				if l.L == want && l.R == "true" && l.Mask == mEQ {
					return true
				}
			}
		}
	case "errIs", "errIsNot", "failed":
		// errIs(callee|classifier): some earlier call to callee failed (err != nil assumed) and the
		// classifier atom on its error was assumed true (errIs) / false (errIsNot); failed(callee): err != nil assumed
		callee, cls, _ := strings.Cut(p.Arg, "|")
		for _, e := range evs {
			if e.Kind != EvCall || e.Deferred || e.CalleeName != callee {
				continue
			}
			errv := "err(" + e.Canon + ")"
			failed := false
			for _, l := range conds {
				if l.L == errv && l.RNil && l.Mask == mLT|mGT {
					failed = true
				}
			}
			if !failed {
				continue
			}
			if p.Kind == "failed" {
				return true
			}
			atom := cls + "(" + errv + ")"
			for _, l := range conds {
				if l.L == atom && l.R == "true" {
					if p.Kind == "errIs" && l.Mask == mEQ {
						return true
					}
					if p.Kind == "errIsNot" && l.Mask == mLT|mGT {
						return true
					}
				}
			}
		}
	case "wrote":
		field, rhs, _ := strings.Cut(p.Arg, "=")
		for _, e := range evs {
			if e.Kind == EvWrite && e.Field == field && (rhs == "" || e.RHS == rhs) {
				return true
			}
		}
	}
	return false
}
