package engine

import (
	"fmt"
	"go/ast"
	"go/constant"
	"go/parser"
	"go/token"
	"go/types"
	"hash/fnv"
	"os"
	"os/exec"
	"regexp"
	"sort"
	"strings"
	"sync"

	"golang.org/x/tools/go/packages"
)

// ModulePath is the module under analysis.
const ModulePath = "github.com/onosproject/onos-config"

// FuncInfo is a function or method of the module that has a body.
type FuncInfo struct {
	Decl *ast.FuncDecl
	Pkg  *packages.Package
	Obj  *types.Func
}

// Name returns a short readable name: pkg.(Recv).Func.
func (f *FuncInfo) Name() string { return ShortFuncName(f.Obj) }

// Prog is the loaded, type-checked module.
type Prog struct {
	Fset        *token.FileSet
	Pkgs        []*packages.Package // module packages only, sorted by path
	ByPath      map[string]*packages.Package
	Funcs       map[*types.Func]*FuncInfo
	AllPkgs     map[string]*types.Package // every package reachable through imports, by path
	Overlay     map[string][]byte
	RepoDir     string
	domCache    map[string][]constant.Value
	constIdx    map[string]*types.Const
	SymDefs     map[string]string // symbol -> defining canonical expression
	symOf       map[string]string
	fieldWrites []FieldWrite
	callSites   []CallSite
}

// LoadOpts selects what to load.
type LoadOpts struct {
	Dir      string
	Patterns []string
	AllDeps  bool // load syntax of dependencies too (needed for SSA)
	Overlay  map[string][]byte
	Env      []string
}

// ExpectedPackages is the number of packages of the module confirmed by hand at the pinned commit.
// A load that finds fewer fails: a static tool sees only what was parsed.
const ExpectedPackages = 39

// Load loads the module's packages with full type information.
func Load(o LoadOpts) (*Prog, error) {
	mode := packages.NeedName | packages.NeedFiles | packages.NeedCompiledGoFiles | packages.NeedImports |
		packages.NeedTypes | packages.NeedTypesSizes | packages.NeedSyntax | packages.NeedTypesInfo | packages.NeedModule
	if o.AllDeps {
		mode |= packages.NeedDeps
	}
	env := append(os.Environ(), "GOFLAGS=-mod=mod", "GOPROXY=off", "GOSUMDB=off", "GOTOOLCHAIN=local", "GOWORK=off")
	env = append(env, o.Env...)
	cfg := &packages.Config{
		Mode:    mode,
		Dir:     o.Dir,
		Env:     env,
		Tests:   false,
		Overlay: o.Overlay,
		Fset:    token.NewFileSet(),
	}
	pats := o.Patterns
	if len(pats) == 0 {
		pats = []string{"./..."}
	}
	pkgs, err := packages.Load(cfg, pats...)
	if err != nil {
		return nil, fmt.Errorf("load: %v", err)
	}
	p := &Prog{Fset: cfg.Fset, ByPath: map[string]*packages.Package{}, Funcs: map[*types.Func]*FuncInfo{},
		AllPkgs: map[string]*types.Package{}, Overlay: o.Overlay, RepoDir: o.Dir,
		domCache: map[string][]constant.Value{}, SymDefs: map[string]string{}, symOf: map[string]string{}}
	var errs []string
	packages.Visit(pkgs, nil, func(pkg *packages.Package) {
		for _, e := range pkg.Errors {
			errs = append(errs, fmt.Sprintf("%s: %s", pkg.PkgPath, e.Error()))
		}
	})
	if len(errs) > 0 {
		sort.Strings(errs)
		if len(errs) > 10 {
			errs = errs[:10]
		}
		return nil, fmt.Errorf("load/type errors (no verdict):\n  %s", strings.Join(errs, "\n  "))
	}
	for _, pkg := range pkgs {
		if !strings.HasPrefix(pkg.PkgPath, ModulePath) {
			continue
		}
		p.Pkgs = append(p.Pkgs, pkg)
		p.ByPath[pkg.PkgPath] = pkg
	}
	sort.Slice(p.Pkgs, func(i, j int) bool { return p.Pkgs[i].PkgPath < p.Pkgs[j].PkgPath })
	if len(pats) == 1 && pats[0] == "./..." && len(p.Pkgs) < ExpectedPackages {
		return nil, fmt.Errorf("load: %d module packages found, %d expected", len(p.Pkgs), ExpectedPackages)
	}
	if len(p.Pkgs) == 0 {
		return nil, fmt.Errorf("load: no module packages matched %v", pats)
	}
	for _, pkg := range p.Pkgs {
		for _, f := range pkg.Syntax {
			for _, d := range f.Decls {
				fd, ok := d.(*ast.FuncDecl)
				if !ok || fd.Body == nil {
					continue
				}
				obj, _ := pkg.TypesInfo.Defs[fd.Name].(*types.Func)
				if obj == nil {
					continue
				}
				p.Funcs[obj] = &FuncInfo{Decl: fd, Pkg: pkg, Obj: obj}
			}
		}
	}
	detectRenames(p)
	var visit func(tp *types.Package)
	visit = func(tp *types.Package) {
		if tp == nil || p.AllPkgs[tp.Path()] != nil {
			return
		}
		p.AllPkgs[tp.Path()] = tp
		for _, imp := range tp.Imports() {
			visit(imp)
		}
	}
	for _, pkg := range p.Pkgs {
		visit(pkg.Types)
	}
	return p, nil
}

// Pkg returns the module package with the given path relative to the module root ("pkg/utils").
func (p *Prog) Pkg(rel string) *packages.Package {
	return p.ByPath[ModulePath+"/"+rel]
}

// MustPkg is Pkg that fails loudly.
func (p *Prog) MustPkg(rel string) (*packages.Package, error) {
	pk := p.Pkg(rel)
	if pk == nil {
		return nil, fmt.Errorf("anchor package %s not found in the module (unresolved anchor)", rel)
	}
	return pk, nil
}

// Pos renders a position relative to the repository root.
func (p *Prog) Pos(pos token.Pos) string {
	if !pos.IsValid() {
		return "-"
	}
	ps := p.Fset.Position(pos)
	fn := ps.Filename
	if p.RepoDir != "" {
		fn = strings.TrimPrefix(fn, strings.TrimSuffix(p.RepoDir, "/")+"/")
	}
	return fmt.Sprintf("%s:%d", fn, ps.Line)
}

// ShortFuncName renders pkgname.(Recv).Name.
func ShortFuncName(f *types.Func) string {
	if f == nil {
		return "?"
	}
	if n, ok := renamedFrom[f]; ok {
		return n
	}
	return shortFuncName(f)
}

func shortFuncName(f *types.Func) string {
	sig, _ := f.Type().(*types.Signature)
	pk := ""
	if f.Pkg() != nil {
		pk = pkgLabel(f.Pkg())
	}
	if sig != nil && sig.Recv() != nil {
		t := sig.Recv().Type()
		if pt, ok := t.(*types.Pointer); ok {
			t = pt.Elem()
		}
		if n, ok := t.(*types.Named); ok {
			return pk + "." + n.Obj().Name() + "." + f.Name()
		}
		return pk + ".?." + f.Name()
	}
	return pk + "." + f.Name()
}

// pkgLabel gives a short but unambiguous label for a package: for module packages the path below
// "pkg/" ("store/v2/proposal"), for others the last path element, preceded by the element before it
// when the last one is a bare version ("config/v2").
func pkgLabel(p *types.Package) string {
	path := p.Path()
	if strings.HasPrefix(path, ModulePath+"/") {
		rel := strings.TrimPrefix(path, ModulePath+"/")
		return strings.TrimPrefix(rel, "pkg/")
	}
	parts := strings.Split(path, "/")
	n := len(parts)
	last := parts[n-1]
	if n >= 2 && len(last) <= 3 && last[0] == 'v' && last[1] >= '0' && last[1] <= '9' {
		return parts[n-2] + "/" + last
	}
	return last
}

// Domain returns the values of the constants declared with named type t in t's package, when t is
// an integer-kinded named type with at least two such constants (a protobuf-style enum).
func (p *Prog) Domain(t types.Type) []constant.Value {
	n, ok := t.(*types.Named)
	if !ok || n.Obj().Pkg() == nil {
		return nil
	}
	b, ok := n.Underlying().(*types.Basic)
	if !ok || b.Info()&types.IsInteger == 0 {
		return nil
	}
	key := n.Obj().Pkg().Path() + "." + n.Obj().Name()
	if d, ok := p.domCache[key]; ok {
		return d
	}
	var vals []constant.Value
	seen := map[string]bool{}
	sc := n.Obj().Pkg().Scope()
	for _, name := range sc.Names() {
		c, ok := sc.Lookup(name).(*types.Const)
		if !ok || !types.Identical(c.Type(), t) {
			continue
		}
		k := c.Val().ExactString()
		if !seen[k] {
			seen[k] = true
			vals = append(vals, c.Val())
		}
	}
	if len(vals) < 2 {
		vals = nil
	}
	p.domCache[key] = vals
	return vals
}

// DomainNames returns name→value of the enum constants of t.
func (p *Prog) DomainNames(t types.Type) map[string]constant.Value {
	n, ok := t.(*types.Named)
	if !ok || n.Obj().Pkg() == nil {
		return nil
	}
	out := map[string]constant.Value{}
	sc := n.Obj().Pkg().Scope()
	for _, name := range sc.Names() {
		c, ok := sc.Lookup(name).(*types.Const)
		if ok && types.Identical(c.Type(), t) {
			out[pkgLabel(c.Pkg())+"."+name] = c.Val()
		}
	}
	return out
}

// LookupConst resolves a canonical constant name "pkglabel.Name".
func (p *Prog) LookupConst(name string) *types.Const {
	if p.constIdx == nil {
		p.constIdx = map[string]*types.Const{}
		for _, tp := range p.AllPkgs {
			sc := tp.Scope()
			for _, n := range sc.Names() {
				if c, ok := sc.Lookup(n).(*types.Const); ok && c.Exported() {
					p.constIdx[pkgLabel(tp)+"."+n] = c
				}
			}
		}
	}
	return p.constIdx[name]
}

// FuncsOf returns the functions with bodies of a package, in source order.
func (p *Prog) FuncsOf(pkg *packages.Package) []*FuncInfo {
	var out []*FuncInfo
	for _, f := range p.Funcs {
		if f.Pkg == pkg {
			out = append(out, f)
		}
	}
	sort.Slice(out, func(i, j int) bool { return out[i].Decl.Pos() < out[j].Decl.Pos() })
	return out
}

// Sym returns the short symbol that names the value of the canonical expression def.
func (p *Prog) Sym(def string) string {
	symMu.Lock()
	defer symMu.Unlock()
	if s, ok := p.symOf[def]; ok {
		return s
	}
	h := fnv.New32a()
	h.Write([]byte(def))
	v := h.Sum32()
	for {
		s := fmt.Sprintf("§%06x", v&0xffffff)
		if d, taken := p.SymDefs[s]; !taken || d == def {
			p.SymDefs[s] = def
			p.symOf[def] = s
			return s
		}
		v++
	}
}

var symRe = regexp.MustCompile(`§[0-9a-f]{6}`)

// Render replaces symbols by the names given in names, or else by their definitions in ⟨⟩.
func (p *Prog) Render(s string, names map[string]string) string {
	for depth := 0; depth < 8 && strings.Contains(s, "§"); depth++ {
		s = symRe.ReplaceAllStringFunc(s, func(sym string) string {
			if n, ok := names[sym]; ok {
				return n
			}
			symMu.Lock()
			d, ok := p.SymDefs[sym]
			symMu.Unlock()
			if ok {
				return "⟨" + d + "⟩"
			}
			return sym
		})
	}
	return s
}

var symMu sync.Mutex

// WithFile returns a program in which one file of a module package is replaced by content. Only
// that package is re-parsed and re-type-checked (against the already loaded imports); this is
// sound for changes that leave the package's exported API alone, which is all the witness
// mutants do. The receiver is not modified.
func (p *Prog) WithFile(file string, content []byte) (*Prog, error) {
	var target *packages.Package
	idx := -1
	for _, pkg := range p.Pkgs {
		for i, f := range pkg.CompiledGoFiles {
			if f == file {
				target, idx = pkg, i
			}
		}
	}
	if target == nil {
		return nil, fmt.Errorf("file %s is not part of a loaded module package", file)
	}
	nf, err := parser.ParseFile(p.Fset, file, content, parser.ParseComments|parser.SkipObjectResolution)
	if err != nil {
		return nil, err
	}
	syntax := append([]*ast.File(nil), target.Syntax...)
	// Syntax is parallel to CompiledGoFiles for packages loaded from source
	if idx < len(syntax) && p.Fset.Position(syntax[idx].Pos()).Filename == file {
		syntax[idx] = nf
	} else {
		found := false
		for i, f := range syntax {
			if p.Fset.Position(f.Pos()).Filename == file {
				syntax[i] = nf
				found = true
			}
		}
		if !found {
			return nil, fmt.Errorf("syntax of %s not found", file)
		}
	}
	info := &types.Info{
		Types:      map[ast.Expr]types.TypeAndValue{},
		Defs:       map[*ast.Ident]types.Object{},
		Uses:       map[*ast.Ident]types.Object{},
		Implicits:  map[ast.Node]types.Object{},
		Selections: map[*ast.SelectorExpr]*types.Selection{},
		Scopes:     map[ast.Node]*types.Scope{},
		Instances:  map[*ast.Ident]types.Instance{},
	}
	var firstErr error
	conf := types.Config{
		Importer: importerFunc(func(path string) (*types.Package, error) {
			if tp, ok := p.AllPkgs[path]; ok {
				return tp, nil
			}
			if path == "unsafe" {
				return types.Unsafe, nil
			}
			return nil, fmt.Errorf("import %s not loaded", path)
		}),
		Sizes: target.TypesSizes,
		Error: func(err error) {
			if firstErr == nil {
				firstErr = err
			}
		},
	}
	tp, _ := conf.Check(target.PkgPath, p.Fset, syntax, info)
	if firstErr != nil {
		return nil, firstErr
	}
	np := *target
	np.Syntax = syntax
	np.Types = tp
	np.TypesInfo = info
	q := &Prog{Fset: p.Fset, ByPath: map[string]*packages.Package{}, Funcs: map[*types.Func]*FuncInfo{}, AllPkgs: p.AllPkgs,
		RepoDir: p.RepoDir, domCache: map[string][]constant.Value{}, SymDefs: p.SymDefs, symOf: p.symOf, Overlay: map[string][]byte{file: content}}
	for k, v := range p.Overlay {
		if _, ok := q.Overlay[k]; !ok {
			q.Overlay[k] = v
		}
	}
	for _, pkg := range p.Pkgs {
		if pkg == target {
			q.Pkgs = append(q.Pkgs, &np)
			q.ByPath[pkg.PkgPath] = &np
		} else {
			q.Pkgs = append(q.Pkgs, pkg)
			q.ByPath[pkg.PkgPath] = pkg
		}
	}
	for fobj, fi := range p.Funcs {
		if fi.Pkg != target {
			q.Funcs[fobj] = fi
		}
	}
	for _, f := range np.Syntax {
		for _, d := range f.Decls {
			fd, ok := d.(*ast.FuncDecl)
			if !ok || fd.Body == nil {
				continue
			}
			if obj, _ := info.Defs[fd.Name].(*types.Func); obj != nil {
				q.Funcs[obj] = &FuncInfo{Decl: fd, Pkg: &np, Obj: obj}
			}
		}
	}
	return q, nil
}

type importerFunc func(path string) (*types.Package, error)

func (f importerFunc) Import(path string) (*types.Package, error) { return f(path) }

func parseFile(fset *token.FileSet, file string) (*ast.File, error) {
	return parser.ParseFile(fset, file, nil, parser.SkipObjectResolution)
}

// ModuleDir returns the directory of a module in the module cache (through `go list -m`).
func (p *Prog) ModuleDir(module string) (string, error) {
	cmd := exec.Command("go", "list", "-m", "-f", "{{.Dir}}", module)
	cmd.Dir = p.RepoDir
	cmd.Env = append(os.Environ(), "GOFLAGS=-mod=mod", "GOPROXY=off", "GOSUMDB=off", "GOTOOLCHAIN=local", "GOWORK=off")
	out, err := cmd.Output()
	if err != nil {
		return "", fmt.Errorf("go list -m %s: %v", module, err)
	}
	return strings.TrimSpace(string(out)), nil
}

// TypeLabel renders a type with the package labels used in canonical strings.
func TypeLabel(t types.Type) string {
	return types.TypeString(t, func(p *types.Package) string { return pkgLabel(p) })
}

// renamedFrom maps a function of the analysed tree to the name under which the obligation tables know it: an
// unexported function that is absent from the tree although the inventory (known_funcs.txt) lists it, and a
// function of the same package and receiver that the inventory has never seen, with the SAME signature and
// unique on both sides, are taken to be one function that was renamed. Rules select callees by resolved name; a
// renamed helper keeps its table rows this way instead of losing every anchor.
var renamedFrom = map[*types.Func]string{}

func detectRenames(p *Prog) {
	renamedFrom = map[*types.Func]string{}
	present := map[string]bool{}
	for fn := range p.Funcs {
		present[shortFuncName(fn)] = true
	}
	scope := func(name string) string { // "pkg.Recv" or "pkg"
		return name[:strings.LastIndex(name, ".")]
	}
	missing := map[string][]string{}
	for name := range knownFuncs {
		if !present[name] {
			base := name[strings.LastIndex(name, ".")+1:]
			if base != "" && !(base[0] >= 'A' && base[0] <= 'Z') {
				missing[scope(name)] = append(missing[scope(name)], name)
			}
		}
	}
	if len(missing) == 0 {
		return
	}
	fresh := map[string][]*types.Func{}
	for fn := range p.Funcs {
		n := shortFuncName(fn)
		if !knownFuncs[n] && len(knownFuncs) > 0 {
			fresh[scope(n)] = append(fresh[scope(n)], fn)
		}
	}
	for sc, olds := range missing {
		for _, old := range olds {
			sig := knownSigs[old]
			if sig == "" {
				continue
			}
			var cand []*types.Func
			for _, fn := range fresh[sc] {
				if SigString(fn) == sig {
					cand = append(cand, fn)
				}
			}
			others := 0
			for _, o2 := range olds {
				if knownSigs[o2] == sig {
					others++
				}
			}
			if len(cand) == 1 && others == 1 {
				renamedFrom[cand[0]] = old // unique on both sides; anything ambiguous is not guessed
			}
		}
	}
}
