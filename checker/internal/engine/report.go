package engine

import (
	"encoding/json"
	"fmt"
	"os"
	"path/filepath"
	"sort"
	"strings"
	"time"
)

// Violation is a falsified or undecided obligation at a construct.
type Violation struct {
	Property   string   `json:"property"`
	Obligation string   `json:"obligation"`
	Rule       string   `json:"rule"`
	Key        string   `json:"key"` // construct key: no line numbers
	Pos        string   `json:"pos"`
	Func       string   `json:"func"`
	Msg        string   `json:"msg"`
	Required   string   `json:"required,omitempty"`
	Found      string   `json:"found,omitempty"`
	Path       []string `json:"path,omitempty"`
	Undecided  bool     `json:"undecided,omitempty"`
}

// OblResult is the outcome of one obligation.
type OblResult struct {
	ID          string   `json:"id"`
	Rule        string   `json:"rule"`
	Clause      string   `json:"clause,omitempty"`
	Why         string   `json:"why,omitempty"`
	Sites       int      `json:"sites"`
	Evaluations int      `json:"evaluations"` // site × path pairs (or table cells) evaluated
	Discharged  bool     `json:"discharged"`
	Samples     []string `json:"samples,omitempty"`
	Violations  int      `json:"violations"`
}

// KnownFinding is an entry of known_findings.json.
type KnownFinding struct {
	ID         string `json:"id"`
	Property   string `json:"property"`
	Obligation string `json:"obligation"`
	Key        string `json:"key"`
	Status     string `json:"status"` // "known" or "fixed"
	Commit     string `json:"commit,omitempty"`
	What       string `json:"what"`
}

// Report accumulates the results of one property check.
type Report struct {
	Property    string
	Tier        string
	VerifDir    string
	Explanation string
	Declined    []string
	Assumptions []string
	Obls        []*OblResult
	Violations  []*Violation
	Extra       map[string]interface{}
	start       time.Time
	A           *Analysis
	Packages    []string
	Witness     *WitnessStats
}

// WitnessStats summarises the witness-mutation run of the thorough tier.
type WitnessStats struct {
	Mutants     int      `json:"mutants"`
	Detected    int      `json:"mutants_detected"`
	NotApplied  int      `json:"mutants_not_applicable"`
	Insensitive []string `json:"insensitive,omitempty"`
	Benign      int      `json:"benign_rewrites"`
	BenignQuiet int      `json:"benign_rewrites_silent"`
	BenignNoisy []string `json:"benign_rewrites_flagged,omitempty"`
}

// NewReport starts a report.
func NewReport(property, tier, verifDir string) *Report {
	return &Report{Property: property, Tier: tier, VerifDir: verifDir, start: time.Now(), Extra: map[string]interface{}{}}
}

// Add records an obligation result.
func (r *Report) Add(o *OblResult) { r.Obls = append(r.Obls, o) }

// Violate records a violation.
func (r *Report) Violate(v *Violation) {
	v.Property = r.Property
	for _, x := range r.Violations {
		if x.Obligation == v.Obligation && x.Key == v.Key && x.Pos == v.Pos {
			return
		}
	}
	r.Violations = append(r.Violations, v)
}

// LoadKnown reads known_findings.json.
func LoadKnown(verifDir string) ([]KnownFinding, error) {
	b, err := os.ReadFile(filepath.Join(verifDir, "known_findings.json"))
	if err != nil {
		if os.IsNotExist(err) {
			return nil, nil
		}
		return nil, err
	}
	var doc struct {
		Findings []KnownFinding `json:"findings"`
	}
	if err := json.Unmarshal(b, &doc); err != nil {
		return nil, fmt.Errorf("known_findings.json: %v", err)
	}
	return doc.Findings, nil
}

// Finish prints the verdict lines, writes evidence and violation records, and returns the exit code.
func (r *Report) Finish() int {
	known, err := LoadKnown(r.VerifDir)
	if err != nil {
		fmt.Println("ERROR:", err)
		return 2
	}
	isKnown := func(v *Violation) *KnownFinding {
		for i := range known {
			k := &known[i]
			if k.Status == "known" && k.Property == v.Property && k.Obligation == v.Obligation && k.Key == v.Key {
				return k
			}
		}
		return nil
	}
	sort.SliceStable(r.Violations, func(i, j int) bool {
		if r.Violations[i].Obligation != r.Violations[j].Obligation {
			return r.Violations[i].Obligation < r.Violations[j].Obligation
		}
		return r.Violations[i].Key < r.Violations[j].Key
	})
	outDir := filepath.Join(r.VerifDir, "out", r.Property)
	_ = os.RemoveAll(outDir)
	var knownHit []map[string]string
	unlisted := 0
	seenKnown := map[string]bool{}
	for _, v := range r.Violations {
		if k := isKnown(v); k != nil {
			if !seenKnown[k.ID+"|"+k.Obligation+"|"+k.Key] {
				seenKnown[k.ID+"|"+k.Obligation+"|"+k.Key] = true
				fmt.Printf("KNOWN-FINDING: property=%s %s [%s] %s (%s)\n", r.Property, k.ID, v.Obligation, k.What, v.Pos)
				knownHit = append(knownHit, map[string]string{"id": k.ID, "obligation": v.Obligation, "key": v.Key, "what": k.What, "pos": v.Pos})
			}
			continue
		}
		unlisted++
		_ = os.MkdirAll(outDir, 0o755)
		file := filepath.Join(outDir, fmt.Sprintf("%d.json", unlisted))
		b, _ := json.MarshalIndent(v, "", "  ")
		_ = os.WriteFile(file, b, 0o644)
		kind := "falsified"
		if v.Undecided {
			kind = "undecided"
		}
		fmt.Printf("  %s %s: %s %s in %s\n      %s\n", kind, v.Obligation, v.Pos, v.Key, v.Func, v.Msg)
		if v.Required != "" {
			fmt.Printf("      required: %s\n      found:    %s\n", v.Required, v.Found)
		}
		fmt.Printf("VIOLATION property=%s replay=%s\n", r.Property, file)
	}
	// evidence
	nObl, nDis, evals, nontriv := 0, 0, 0, 0
	var samples []interface{}
	for _, o := range r.Obls {
		nObl++
		if o.Discharged {
			nDis++
		}
		evals += o.Evaluations
		if o.Sites > 0 {
			nontriv++
		}
		if len(samples) < 12 && len(o.Samples) > 0 {
			samples = append(samples, map[string]interface{}{"obligation": o.ID, "rule": o.Rule, "clause": o.Clause, "site": o.Samples[0]})
		}
	}
	cov := map[string]interface{}{
		"explanation":         r.Explanation,
		"declined":            r.Declined,
		"obligations":         nObl,
		"discharged":          nDis,
		"evaluations":         evals,
		"distinct_nontrivial": nontriv,
		"rule":                "one evaluation = one (obligation, site, path) triple or one table cell decided from the type-checked source; an obligation is non-trivial when it matched at least one site",
		"samples":             samples,
		"obligation_results":  r.Obls,
		"known_findings":      knownHit,
		"checker_cmd":         strings.Join(os.Args, " "),
		"trusted_base":        []string{"go/types and go/packages (x/tools v0.29.0)", "occheck canonicaliser, path enumerator and literal solver", "the obligation tables in checker/internal/props"},
		"packages":            r.Packages,
		"exhaustive":          true,
	}
	if r.A != nil {
		cov["functions_walked"] = r.A.FuncsWalked
		cov["paths_enumerated"] = r.A.PathsTotal
	}
	for k, v := range r.Extra {
		cov[k] = v
	}
	if r.Witness != nil {
		cov["witness"] = r.Witness
	}
	seed := 0
	fmt.Sscan(os.Getenv("VERIF_SEED"), &seed)
	if r.Assumptions == nil {
		r.Assumptions = []string{}
	}
	r.Assumptions = append(r.Assumptions, "the loaded packages are what the build compiles (no build tags in the module); go/types is correct")
	if r.Declined == nil {
		r.Declined = []string{}
	}
	ev := map[string]interface{}{
		"property_id": r.Property,
		"tier":        r.Tier,
		"seed":        seed,
		"level":       "other",
		"coverage":    cov,
		"assumptions": r.Assumptions,
		"wall_s":      time.Since(r.start).Seconds(),
		"violations":  unlisted,
	}
	_ = os.MkdirAll(filepath.Join(r.VerifDir, "evidence"), 0o755)
	b, _ := json.MarshalIndent(ev, "", " ")
	if err := os.WriteFile(filepath.Join(r.VerifDir, "evidence", r.Property+".json"), b, 0o644); err != nil {
		fmt.Println("ERROR: cannot write evidence:", err)
		return 2
	}
	fmt.Printf("%s [%s]: %d obligations, %d discharged, %d evaluations, %d known findings, %d violations (%.1fs)\n",
		r.Property, r.Tier, nObl, nDis, evals, len(knownHit), unlisted, time.Since(r.start).Seconds())
	if unlisted > 0 {
		return 1
	}
	return 0
}

// DryResult is what a dry run prints (one JSON object on stdout).
type DryResult struct {
	Status     string         `json:"status"` // "ok" or "loaderror"
	Violations []DryViolation `json:"violations"`
	Error      string         `json:"error,omitempty"`
}

// DryViolation identifies a violation.
type DryViolation struct {
	Obligation string `json:"obligation"`
	Key        string `json:"key"`
	Undecided  bool   `json:"undecided"`
	Pos        string `json:"pos"`
}

// FinishDry prints the violations as JSON and writes nothing.
func (r *Report) FinishDry(loadErr error) int {
	res := DryResult{Status: "ok"}
	if loadErr != nil {
		res.Status = "loaderror"
		res.Error = loadErr.Error()
	}
	for _, v := range r.Violations {
		res.Violations = append(res.Violations, DryViolation{v.Obligation, v.Key, v.Undecided, v.Pos})
	}
	b, _ := json.Marshal(res)
	fmt.Println(string(b))
	return 0
}
