package engine

import (
	_ "embed"
	"strings"
)

// known_funcs.txt is the inventory of the module's functions at the time the obligation tables were last
// confirmed by reading (`occheck funcs`). It decides one thing only: a same-package callee that is NOT in it
// is a helper introduced since then (typically by "extract function"), and rules that otherwise treat calls
// as opaque look through it — its statements are analysed as if they still stood at the call site. Inlining
// more never makes a rule less sound; on the tree the tables were written for the list changes nothing.
//
//go:embed known_funcs.txt
var knownFuncsText string

var knownFuncs = func() map[string]bool {
	m := map[string]bool{}
	for _, l := range strings.Split(knownFuncsText, "\n") {
		if l = strings.TrimSpace(l); l != "" {
			m[l] = true
		}
	}
	return m
}()

// IsNewHelper reports whether f is a function the obligation tables have never seen.
func IsNewHelper(f *FuncInfo) bool {
	return f != nil && !knownFuncs[f.Name()]
}
