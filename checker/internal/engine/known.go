package engine

import (
	_ "embed"
	"go/ast"
	"go/types"
	"strings"
)

// known_funcs.txt is the inventory of the module's functions at the time the obligation tables were last
// confirmed by reading (`occheck funcs`). It decides one thing only: a same-package callee that is NOT in it
// is a helper introduced since then (typically by "extract function"), and rules that otherwise treat calls
// as opaque look through it — its statements are analysed as if they still stood at the call site. Inlining
// more never makes a rule less sound; on the tree the tables were written for the list changes nothing.
//
//go:embed known_funcs.txt
var knownFuncsText string

var knownSigs = map[string]string{}

var knownFuncs = func() map[string]bool {
	m := map[string]bool{}
	for _, l := range strings.Split(knownFuncsText, "\n") {
		if l = strings.TrimSpace(l); l != "" {
			name, sig, _ := strings.Cut(l, "\t")
			m[name] = true
			knownSigs[name] = sig
		}
	}
	return m
}()

// SigString renders the signature of a function without its receiver, package-qualified: what a renamed
// function keeps.
func SigString(f *types.Func) string {
	sig, ok := f.Type().(*types.Signature)
	if !ok {
		return ""
	}
	q := func(p *types.Package) string { return p.Path() }
	tuple := func(t *types.Tuple) string {
		var parts []string
		for i := 0; i < t.Len(); i++ {
			parts = append(parts, types.TypeString(t.At(i).Type(), q))
		}
		return strings.Join(parts, ", ")
	}
	v := ""
	if sig.Variadic() {
		v = "..."
	}
	return "func(" + tuple(sig.Params()) + v + ") (" + tuple(sig.Results()) + ")"
}

// IsNewHelper reports whether f is a function the obligation tables have never seen.
func IsNewHelper(f *FuncInfo) bool {
	return f != nil && !knownFuncs[f.Name()]
}

// WithHelpers returns f followed by the same-package functions it calls (statically resolved, transitively,
// at most depth levels) — where a rule looks for a construct "in function f", a construct that a refactoring
// moved into a helper of f is still found. onlyNew restricts the helpers to functions the tables have never seen.
func (p *Prog) WithHelpers(f *FuncInfo, depth int, onlyNew bool) []*FuncInfo {
	out := []*FuncInfo{f}
	seen := map[*FuncInfo]bool{f: true}
	level := []*FuncInfo{f}
	for d := 0; d < depth && len(level) > 0; d++ {
		var next []*FuncInfo
		for _, g := range level {
			info := g.Pkg.TypesInfo
			ast.Inspect(g.Decl.Body, func(n ast.Node) bool {
				call, ok := n.(*ast.CallExpr)
				if !ok {
					return true
				}
				var id *ast.Ident
				switch fun := ast.Unparen(call.Fun).(type) {
				case *ast.Ident:
					id = fun
				case *ast.SelectorExpr:
					id = fun.Sel
				}
				if id == nil {
					return true
				}
				fn, _ := info.Uses[id].(*types.Func)
				h := p.Funcs[fn]
				if h == nil || h.Pkg != f.Pkg || seen[h] || (onlyNew && !IsNewHelper(h)) {
					return true
				}
				seen[h] = true
				out = append(out, h)
				next = append(next, h)
				return true
			})
		}
		level = next
	}
	return out
}

// KeyOwner names the function a construct belongs to for the purpose of violation keys: a helper the tables have
// never seen that has exactly one calling function in its package belongs to that caller (transitively), so a
// known finding whose construct was moved into an extracted helper keeps its key.
func (p *Prog) KeyOwner(f *FuncInfo) string {
	for depth := 0; depth < 4 && f != nil && IsNewHelper(f); depth++ {
		var callers []*FuncInfo
		for _, g := range p.Funcs {
			if g.Pkg != f.Pkg || g == f {
				continue
			}
			calls := false
			ast.Inspect(g.Decl.Body, func(n ast.Node) bool {
				call, ok := n.(*ast.CallExpr)
				if !ok || calls {
					return !calls
				}
				var id *ast.Ident
				switch fun := ast.Unparen(call.Fun).(type) {
				case *ast.Ident:
					id = fun
				case *ast.SelectorExpr:
					id = fun.Sel
				}
				if id != nil {
					if fn, _ := g.Pkg.TypesInfo.Uses[id].(*types.Func); fn == f.Obj {
						calls = true
					}
				}
				return true
			})
			if calls {
				callers = append(callers, g)
			}
		}
		if len(callers) != 1 {
			break
		}
		f = callers[0]
	}
	return f.Name()
}
