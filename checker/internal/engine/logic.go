// Package engine holds the repository-independent analysis machinery of occheck:
// loading, canonical expressions, path enumeration, literal entailment and rule kinds.
package engine

import (
	"fmt"
	"go/constant"
	"go/token"
	"go/types"
	"sort"
	"strings"
)

// Outcome masks of a comparison between two values.
const (
	mLT = 1
	mEQ = 2
	mGT = 4
)

func opMask(op string) int {
	switch op {
	case "==":
		return mEQ
	case "!=":
		return mLT | mGT
	case "<":
		return mLT
	case "<=":
		return mLT | mEQ
	case ">":
		return mGT
	case ">=":
		return mGT | mEQ
	}
	return 0
}

func maskOp(m int) string {
	switch m {
	case mEQ:
		return "=="
	case mLT | mGT:
		return "!="
	case mLT:
		return "<"
	case mLT | mEQ:
		return "<="
	case mGT:
		return ">"
	case mGT | mEQ:
		return ">="
	case 0:
		return "FALSE"
	}
	return "TRUE"
}

func flipMask(m int) int {
	r := m & mEQ
	if m&mLT != 0 {
		r |= mGT
	}
	if m&mGT != 0 {
		r |= mLT
	}
	return r
}

// Lit is a canonical comparison literal "L op R". Boolean atoms are "L == true" / "L != true".
type Lit struct {
	L, R   string
	Mask   int            // set of outcomes {<,=,>} that make the literal true
	RConst constant.Value // non-nil when R is a constant with a known value
	RNil   bool           // R is the predeclared nil
	LType  types.Type     // static type of L when known (for finite enum domains)
}

func (l Lit) String() string {
	if l.R == "true" {
		if l.Mask == mEQ {
			return l.L
		}
		if l.Mask == mLT|mGT {
			return "!" + l.L
		}
	}
	return l.L + " " + maskOp(l.Mask) + " " + l.R
}

// Negate returns the complement literal.
func (l Lit) Negate() Lit {
	n := l
	n.Mask = (mLT | mEQ | mGT) &^ l.Mask
	return n
}

// Formula is a propositional formula over literals.
type Formula interface{ fstr() string }

type (
	// FLit is a literal leaf.
	FLit struct{ Lit Lit }
	// FAnd is a conjunction.
	FAnd []Formula
	// FOr is a disjunction.
	FOr []Formula
	// FNot is a negation.
	FNot struct{ F Formula }
	// FConst is true or false.
	FConst bool
)

func (f FLit) fstr() string { return f.Lit.String() }
func (f FAnd) fstr() string {
	if len(f) == 0 {
		return "true"
	}
	var s []string
	for _, x := range f {
		s = append(s, x.fstr())
	}
	return "(" + strings.Join(s, " && ") + ")"
}
func (f FOr) fstr() string {
	if len(f) == 0 {
		return "false"
	}
	var s []string
	for _, x := range f {
		s = append(s, x.fstr())
	}
	return "(" + strings.Join(s, " || ") + ")"
}
func (f FNot) fstr() string   { return "!(" + f.F.fstr() + ")" }
func (f FConst) fstr() string { return fmt.Sprint(bool(f)) }

// FString renders a formula.
func FString(f Formula) string { return f.fstr() }

// nnf pushes negations inward; neg tells whether f is under a negation.
func nnf(f Formula, neg bool) Formula {
	switch x := f.(type) {
	case FLit:
		if neg {
			return FLit{x.Lit.Negate()}
		}
		return x
	case FConst:
		if neg {
			return FConst(!bool(x))
		}
		return x
	case FNot:
		return nnf(x.F, !neg)
	case FAnd:
		var out []Formula
		for _, y := range x {
			out = append(out, nnf(y, neg))
		}
		if neg {
			return FOr(out)
		}
		return FAnd(out)
	case FOr:
		var out []Formula
		for _, y := range x {
			out = append(out, nnf(y, neg))
		}
		if neg {
			return FAnd(out)
		}
		return FOr(out)
	}
	panic("nnf: unknown formula")
}

const dnfLimit = 4096

// DNF returns the disjunctive normal form of f (negated first when neg) as a list of literal
// conjunctions. ok is false when the size limit is exceeded.
func DNF(f Formula, neg bool) (res [][]Lit, ok bool) {
	return dnf(nnf(f, neg))
}

func dnf(f Formula) ([][]Lit, bool) {
	switch x := f.(type) {
	case FLit:
		return [][]Lit{{x.Lit}}, true
	case FConst:
		if bool(x) {
			return [][]Lit{{}}, true
		}
		return nil, true
	case FOr:
		var out [][]Lit
		for _, y := range x {
			d, ok := dnf(y)
			if !ok {
				return nil, false
			}
			out = append(out, d...)
			if len(out) > dnfLimit {
				return nil, false
			}
		}
		return out, true
	case FAnd:
		out := [][]Lit{{}}
		for _, y := range x {
			d, ok := dnf(y)
			if !ok {
				return nil, false
			}
			var next [][]Lit
			for _, a := range out {
				for _, b := range d {
					c := make([]Lit, 0, len(a)+len(b))
					c = append(c, a...)
					c = append(c, b...)
					next = append(next, c)
					if len(next) > dnfLimit {
						return nil, false
					}
				}
			}
			out = next
		}
		return out, true
	}
	panic("dnf: formula not in NNF")
}

// DomainFunc returns the finite set of constant values of an enum-like named type, or nil.
type DomainFunc func(t types.Type) []constant.Value

// Unsat reports whether the conjunction of lits is unsatisfiable under the three small theories
// the checker knows: the order relation between one pair of operands, integers compared with
// constants, and finite enum domains. It is sound (true only for genuinely unsatisfiable sets,
// given that equal canonical strings denote equal values) and incomplete.
func Unsat(lits []Lit, dom DomainFunc) bool {
	type key struct{ l, r string }
	pair := map[key]int{}
	type cc struct {
		mask int
		c    constant.Value
		nilc bool
		s    string
	}
	consts := map[string][]cc{}
	ltype := map[string]types.Type{}
	for _, l := range lits {
		if l.Mask == 0 {
			return true
		}
		if l.LType != nil {
			ltype[l.L] = l.LType
		}
		if l.RConst != nil || l.RNil {
			consts[l.L] = append(consts[l.L], cc{l.Mask, l.RConst, l.RNil, l.R})
			continue
		}
		k := key{l.L, l.R}
		if m, ok := pair[k]; ok {
			pair[k] = m & l.Mask
		} else {
			pair[k] = l.Mask
		}
		if pair[k] == 0 {
			return true
		}
	}
	for l, cs := range consts {
		// candidate values
		var cands []constant.Value
		allNum := true
		for _, c := range cs {
			if c.nilc || c.c == nil || (c.c.Kind() != constant.Int && c.c.Kind() != constant.Float) {
				allNum = false
			}
		}
		var domain []constant.Value
		if dom != nil && ltype[l] != nil {
			domain = dom(ltype[l])
		}
		switch {
		case domain != nil:
			cands = domain
		case allNum:
			for _, c := range cs {
				one := constant.MakeInt64(1)
				cands = append(cands, c.c, constant.BinaryOp(c.c, token.ADD, one), constant.BinaryOp(c.c, token.SUB, one))
			}
		default:
			// equality-only theory over opaque constants (nil, strings, bools): the candidates are
			// the constants mentioned plus one fresh value.
			for _, c := range cs {
				if c.nilc {
					cands = append(cands, nil)
				} else {
					cands = append(cands, c.c)
				}
			}
			if isBool(cs[0].c) {
				cands = []constant.Value{constant.MakeBool(true), constant.MakeBool(false)}
			} else {
				cands = append(cands, constant.MakeString("\x00fresh\x00"))
			}
		}
		sat := false
		for _, v := range cands {
			okAll := true
			for _, c := range cs {
				if !holds(v, c.mask, c.c, c.nilc) {
					okAll = false
					break
				}
			}
			if okAll {
				sat = true
				break
			}
		}
		if !sat {
			return true
		}
	}
	return false
}

func isBool(c constant.Value) bool { return c != nil && c.Kind() == constant.Bool }

// holds evaluates "v op c" where op is given as an outcome mask.
func holds(v constant.Value, mask int, c constant.Value, cnil bool) bool {
	var rel int
	switch {
	case v == nil && cnil:
		rel = mEQ
	case v == nil || cnil:
		rel = mLT // any non-equal outcome; order with nil is meaningless, only ==/!= occur
		if mask == mLT|mGT {
			return true
		}
		return false
	case (v.Kind() == constant.Int || v.Kind() == constant.Float) && (c.Kind() == constant.Int || c.Kind() == constant.Float):
		switch {
		case constant.Compare(v, token.LSS, c):
			rel = mLT
		case constant.Compare(v, token.EQL, c):
			rel = mEQ
		default:
			rel = mGT
		}
	case v.Kind() == c.Kind() && v.Kind() == constant.String:
		a, b := constant.StringVal(v), constant.StringVal(c)
		switch {
		case a < b:
			rel = mLT
		case a == b:
			rel = mEQ
		default:
			rel = mGT
		}
	case v.Kind() == c.Kind() && v.Kind() == constant.Bool:
		if constant.BoolVal(v) == constant.BoolVal(c) {
			rel = mEQ
		} else {
			rel = mLT
			return mask == mLT|mGT
		}
	default:
		// different kinds: unequal
		return mask == mLT|mGT
	}
	return mask&rel != 0
}

// Entails reports whether the conjunction conds entails clause.
// It is decided as unsatisfiability of conds ∧ ¬clause.
func Entails(conds []Lit, clause Formula, dom DomainFunc) bool {
	neg, ok := DNF(clause, true)
	if !ok {
		return false
	}
	for _, d := range neg {
		all := make([]Lit, 0, len(conds)+len(d))
		all = append(all, conds...)
		all = append(all, d...)
		if !Unsat(all, dom) {
			return false
		}
	}
	return true
}

// LitsString renders a conjunction of literals.
func LitsString(ls []Lit) string {
	var s []string
	for _, l := range ls {
		s = append(s, l.String())
	}
	return strings.Join(s, " ∧ ")
}

// SortedUnique returns the sorted set of strings.
func SortedUnique(in []string) []string {
	m := map[string]bool{}
	for _, s := range in {
		m[s] = true
	}
	out := make([]string, 0, len(m))
	for s := range m {
		out = append(out, s)
	}
	sort.Strings(out)
	return out
}
